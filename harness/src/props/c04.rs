//! C04 — file appender: acknowledged records are visible, whole, ordered, not interleaved.
//! E-HIST (sequential histories, file read back after every call) + E-SCHED (thread schedules).

use crate::engine::{
    catch_panic,
    hist::{self, HistSpec},
    panic_site,
    sandbox::{show_bytes, Sandbox},
    sched, Ctx, Report, Tier,
};
use log::{Level, Record};
use log4rs::{
    append::{file::FileAppender, Append},
    encode::{self, Encode},
};
use serde_json::{json, Value};
use std::sync::{Arc, Mutex};

/// writes the message in `chunks` pieces, yielding to the scheduler between them
#[derive(Debug)]
pub struct ChunkEncoder {
    pub chunks: usize,
}

impl Encode for ChunkEncoder {
    fn encode(&self, w: &mut dyn encode::Write, record: &Record) -> anyhow::Result<()> {
        let msg = format!("{}", record.args());
        let b = msg.as_bytes();
        let n = self.chunks.max(1);
        for i in 0..n {
            let lo = b.len() * i / n;
            let hi = b.len() * (i + 1) / n;
            w.write_all(&b[lo..hi])?;
            sched::yield_now();
        }
        Ok(())
    }
}

pub fn payload(tag: &str, size: usize) -> String {
    if size == 0 {
        return String::new();
    }
    let head = format!("<{}:", tag);
    if size <= head.len() {
        return tag.chars().cycle().take(size).collect();
    }
    let mut s = head;
    while s.len() < size - 1 {
        s.push((b'a' + (s.len() % 23) as u8) as char);
    }
    s.push('>');
    s
}

// ------------------------------------------------------------------ sequential histories
#[derive(Clone, Debug)]
pub struct FWorld {
    pub append: bool,
    pub pre: Option<&'static str>,
    pub nested: bool,
    pub chunks: usize,
    pub sizes: Vec<usize>,
}

#[derive(Clone, Debug, PartialEq, Eq, Hash)]
pub enum FOp {
    Append(usize),
    Reopen,
    /// a record through the previous appender object, which is still alive (append mode only):
    /// the normal reload sequence, or two appenders configured on one path
    AppendOld(usize),
}

#[derive(Clone, Debug)]
pub struct FState {
    /// (size, label); label usize::MAX = pre-existing content
    pub content: Vec<(usize, usize)>,
    pub nops: usize,
    pub has_old: bool,
}

impl FWorld {
    fn rel(&self) -> &'static str {
        if self.nested {
            "a/b/app.log"
        } else {
            "app.log"
        }
    }
    fn bytes(&self, st: &FState) -> Vec<u8> {
        st.content
            .iter()
            .flat_map(|(size, label)| if *label == usize::MAX { self.pre.unwrap_or("").as_bytes().to_vec() } else { payload(&format!("r{}", label), *size).into_bytes() })
            .collect()
    }
    fn build(&self, sb: &Sandbox) -> Result<FileAppender, String> {
        FileAppender::builder().append(self.append).encoder(Box::new(ChunkEncoder { chunks: self.chunks })).build(sb.path(self.rel())).map_err(|e| e.to_string())
    }
    fn describe(&self) -> String {
        format!("{} pre={:?} nested={} chunks={} sizes={:?}", if self.append { "append" } else { "truncate" }, self.pre, self.nested, self.chunks, self.sizes)
    }
}

impl HistSpec for FWorld {
    type Op = FOp;
    type State = FState;
    type Key = (Vec<usize>, bool);
    fn init(&self) -> FState {
        let mut content = vec![];
        if self.append {
            if let Some(p) = self.pre {
                content.push((p.len(), usize::MAX));
            }
        }
        FState { content, nops: 0, has_old: false }
    }
    fn ops(&self, s: &FState) -> Vec<FOp> {
        let mut v: Vec<FOp> = self.sizes.iter().map(|s| FOp::Append(*s)).collect();
        v.push(FOp::Reopen);
        if self.append && s.has_old {
            v.push(FOp::AppendOld(1));
            v.push(FOp::AppendOld(1025));
        }
        v
    }
    fn step(&self, s: &FState, op: &FOp) -> FState {
        let mut st = s.clone();
        match op {
            FOp::Append(size) | FOp::AppendOld(size) => st.content.push((*size, st.nops)),
            FOp::Reopen => {
                if !self.append {
                    st.content.clear();
                }
                st.has_old = true;
            }
        }
        st.nops += 1;
        st
    }
    fn key(&self, s: &FState) -> (Vec<usize>, bool) {
        (s.content.iter().map(|c| c.0).collect(), s.has_old)
    }
    fn conform(&self, path: &[FOp]) -> Result<(), (String, String)> {
        let sb = Sandbox::new();
        if let Some(p) = self.pre {
            let f = sb.path(self.rel());
            std::fs::create_dir_all(f.parent().unwrap()).unwrap();
            std::fs::write(f, p).unwrap();
        }
        let mut st = self.init();
        let mut app = match catch_panic(|| self.build(&sb)) {
            Ok(Ok(a)) => a,
            Ok(Err(e)) => return Err(("build-failed".into(), e)),
            Err(p) => return Err((format!("panic-build:{}", panic_site(&p)), p)),
        };
        let check = |st: &FState, what: &str| -> Result<(), (String, String)> {
            let got = std::fs::read(sb.path(self.rel())).unwrap_or_default();
            let want = self.bytes(st);
            if got != want {
                let sig = if got.len() < want.len() && want.starts_with(&got) {
                    "file:acknowledged-record-not-visible"
                } else if want.ends_with(&got) && got.len() < want.len() {
                    "file:earlier-content-lost"
                } else if got.len() > want.len() && got.ends_with(&want) {
                    "file:content-not-discarded"
                } else {
                    "file:content-differs"
                };
                return Err((sig.into(), format!("{}: file holds {:?}, expected {:?}", what, show_bytes(&got), show_bytes(&want))));
            }
            Ok(())
        };
        check(&st, "after open")?;
        let mut old: Option<FileAppender> = None;
        for op in path {
            let label = st.nops;
            match op {
                FOp::Append(size) => {
                    let text = payload(&format!("r{}", label), *size);
                    let r = catch_panic(|| app.append(&Record::builder().level(Level::Info).args(format_args!("{}", text)).build()));
                    match r {
                        Err(p) => return Err((format!("panic-append:{}", panic_site(&p)), p)),
                        Ok(Err(e)) => return Err(("append-error".into(), e.to_string())),
                        Ok(Ok(())) => {}
                    }
                }
                FOp::AppendOld(size) => {
                    let text = payload(&format!("r{}", label), *size);
                    let o = old.as_ref().expect("old appender");
                    let r = catch_panic(|| o.append(&Record::builder().level(Level::Info).args(format_args!("{}", text)).build()));
                    match r {
                        Err(p) => return Err((format!("panic-append:{}", panic_site(&p)), p)),
                        Ok(Err(e)) => return Err(("append-error".into(), e.to_string())),
                        Ok(Ok(())) => {}
                    }
                }
                FOp::Reopen => {
                    // the old appender stays alive while the new one opens the same path (two handles)
                    let newapp = match catch_panic(|| self.build(&sb)) {
                        Ok(Ok(a)) => a,
                        Ok(Err(e)) => return Err(("reopen-failed".into(), e)),
                        Err(p) => return Err((format!("panic-reopen:{}", panic_site(&p)), p)),
                    };
                    old = Some(std::mem::replace(&mut app, newapp));
                }
            }
            st = self.step(&st, op);
            check(&st, &format!("after {:?}", op))?;
        }
        Ok(())
    }
}

/// Environment deviations on the real file descriptor: each write(2) of a short history accepts only part of its
/// buffer once, or answers EINTR once.  Acknowledged records must still be whole and complete.
fn fd_deviations(rep: &mut Report) {
    use crate::engine::fsfault::{self, Plan};
    for chunks in [1usize, 3] {
    let w = FWorld { append: true, pre: Some("old\n"), nested: false, chunks, sizes: vec![] };
    let path = vec![FOp::Append(1025), FOp::Append(1), FOp::Append(2500), FOp::Append(700)];
    let run = |short: Vec<(usize, usize)>, fail: Vec<(usize, i32)>| -> (Result<(), (String, String)>, usize) {
        fsfault::begin(&crate::engine::sandbox::scratch_root(), Plan { fail, snapshots: false, kinds: vec!["write"], short });
        fsfault::arm();
        let r = w.conform(&path);
        let n = fsfault::end().map_or(0, |(c, _)| c.len());
        (r, n)
    };
    let (r0, n) = run(vec![], vec![]);
    if let Err((s, d)) = r0 {
        rep.violation(s, d, json!({"kind": "fd-deviation"}));
        continue;
    }
    let mut runs = 0u64;
    for k in 0..n {
        for max in [1usize, 700] {
            runs += 1;
            if let (Err((s, d)), _) = run(vec![(k, max)], vec![]) {
                rep.violation(format!("short-write:{}", s), format!("write #{} of the history {:?} accepts only {} bytes: {}", k, path, max, d), json!({"kind": "fd-deviation", "k": k, "max": max}));
            }
        }
        runs += 1;
        if let (Err((s, d)), _) = run(vec![], vec![(k, libc::EINTR)]) {
            rep.violation(format!("eintr:{}", s), format!("write #{} of the history {:?} answers EINTR once: {}", k, path, d), json!({"kind": "fd-deviation", "k": k, "errno": "EINTR"}));
        }
    }
    rep.add("fd_deviation_runs", runs);
    rep.add("traces_validated_against_impl", runs);
    }
}

/// Hard faults on the real file descriptor: the k-th write(2) of a history of small records (each goes out in one
/// write at its flush) fails once with ENOSPC or EIO.  An append that *returned Ok* must have its record whole in the
/// file when it returns; records whose append returned an error may be there or not (they were not acknowledged),
/// but the file is always the old content followed by whole records in write order.
fn hard_failures(rep: &mut Report) {
    use crate::engine::fsfault::{self, Plan};
    let sizes = [10usize, 1, 700, 40, 300];
    let mut runs = 0u64;
    for chunks in [1usize, 3] {
        let w = FWorld { append: true, pre: Some("old\n"), nested: false, chunks, sizes: vec![] };
        // returns (verdict, number of counted writes)
        let run = |fail: Vec<(usize, i32)>| -> (Result<(), (String, String)>, usize) {
            let sb = Sandbox::new();
            std::fs::write(sb.path(w.rel()), "old\n").unwrap();
            fsfault::begin(&crate::engine::sandbox::scratch_root(), Plan { fail, snapshots: false, kinds: vec!["write"], short: vec![] });
            fsfault::arm();
            let app = match catch_panic(|| w.build(&sb)) {
                Ok(Ok(a)) => a,
                Ok(Err(e)) => {
                    fsfault::end();
                    return (Err(("build-failed".into(), e)), 0);
                }
                Err(p) => {
                    fsfault::end();
                    return (Err((format!("panic-build:{}", panic_site(&p)), p)), 0);
                }
            };
            let mut verdict = Ok(());
            let mut texts: Vec<(String, bool)> = vec![]; // (record, acknowledged)
            for (i, size) in sizes.iter().enumerate() {
                let text = payload(&format!("r{}", i), *size);
                let r = catch_panic(|| app.append(&Record::builder().level(Level::Info).args(format_args!("{}", text)).build()));
                let acked = match r {
                    Err(p) => {
                        verdict = Err((format!("hard-fault:panic-append:{}", panic_site(&p)), p));
                        break;
                    }
                    Ok(Err(_)) => false,
                    Ok(Ok(())) => true,
                };
                texts.push((text, acked));
                let got = std::fs::read(sb.path(w.rel())).unwrap_or_default();
                // the file must be "old\n" + whole records in order, containing every acknowledged one
                let mut pos = 0usize;
                let mut ok = got.starts_with(b"old\n");
                if ok {
                    pos = 4;
                    for (t, a) in &texts {
                        if got[pos..].starts_with(t.as_bytes()) {
                            pos += t.len();
                        } else if *a {
                            verdict = Err(("hard-fault:acknowledged-record-not-visible".into(), format!("append #{} returned Ok but the file does not hold the record at its place: file {:?}", i, show_bytes(&got))));
                            ok = false;
                            break;
                        }
                    }
                }
                if verdict.is_err() {
                    break;
                }
                if !ok || pos != got.len() {
                    verdict = Err(("hard-fault:file-not-whole-records".into(), format!("after append #{}: file {:?} is not the old content followed by whole records in order", i, show_bytes(&got))));
                    break;
                }
            }
            let n = fsfault::end().map_or(0, |(c, _)| c.len());
            (verdict, n)
        };
        let (r0, n) = run(vec![]);
        if let Err((s, d)) = r0 {
            rep.violation(s, d, json!({"kind": "hard-fault"}));
            continue;
        }
        for k in 0..n {
            for errno in [libc::ENOSPC, libc::EIO] {
                runs += 1;
                if let (Err((s, d)), _) = run(vec![(k, errno)]) {
                    rep.violation(s, format!("write #{} fails once with errno {} (chunks={}): {}", k, errno, chunks, d), json!({"kind": "hard-fault", "k": k, "errno": errno}));
                }
            }
        }
    }
    rep.add("hard_fault_runs", runs);
}

pub fn fworlds(tier: Tier) -> Vec<FWorld> {
    let mut v = vec![];
    for append in [true, false] {
        for pre in [None, Some(""), Some("old\n")] {
            for (nested, chunks) in [(false, 1), (true, 3)] {
                let sizes = if tier == Tier::Thorough { vec![0, 1, 1023, 1024, 1025, 2500] } else { vec![0, 1, 1024, 1025, 2500] };
                v.push(FWorld { append, pre, nested, chunks, sizes });
            }
        }
    }
    v
}

// ------------------------------------------------------------------ schedules
#[derive(Clone, Debug)]
pub struct SHarness {
    pub threads: usize,
    pub per_thread: usize,
    pub size: usize,
    pub chunks: usize,
}

impl SHarness {
    fn describe(&self) -> String {
        format!("{} threads x {} appends, {}-byte records in {} chunks", self.threads, self.per_thread, self.size, self.chunks)
    }
}

fn sched_exec(h: &SHarness, prefix: &[usize]) -> (sched::Execution, Result<String, (String, String)>) {
    let sb = Arc::new(Sandbox::new());
    let path = sb.path("app.log");
    let app = Arc::new(FileAppender::builder().encoder(Box::new(ChunkEncoder { chunks: h.chunks })).build(&path).expect("build"));
    let notes: Arc<Mutex<Vec<String>>> = Arc::new(Mutex::new(vec![]));
    let mut bodies: Vec<Box<dyn FnOnce() + Send>> = vec![];
    for t in 0..h.threads {
        let app = app.clone();
        let notes = notes.clone();
        let path = path.clone();
        let (per, size) = (h.per_thread, h.size);
        bodies.push(Box::new(move || {
            for r in 0..per {
                let text = payload(&format!("t{}r{}", t, r), size);
                let res = app.append(&Record::builder().level(Level::Info).args(format_args!("{}", text)).build());
                match res {
                    Err(e) => notes.lock().unwrap().push(format!("append-error:{}", e)),
                    Ok(()) => {
                        // no scheduling point between the return and this read: "once append returns the record is readable"
                        let now = std::fs::read(&path).unwrap_or_default();
                        if !text.is_empty() && !now.windows(text.len()).any(|w| w == text.as_bytes()) {
                            notes.lock().unwrap().push(format!("not-visible:t{}r{}", t, r));
                        }
                    }
                }
            }
        }));
    }
    let ex = sched::run_schedule(bodies, prefix, std::time::Duration::from_secs(20));
    if let Some(p) = ex.panics.first() {
        return (ex.clone(), Err((format!("panic:{}", panic_site(p)), p.clone())));
    }
    if ex.deadlock {
        return (ex.clone(), Err(("deadlock".into(), ex.aborted.clone().unwrap_or_default())));
    }
    if ex.aborted.is_some() {
        return (ex, Ok("aborted".into()));
    }
    let notes = notes.lock().unwrap().clone();
    if let Some(n) = notes.iter().find(|n| n.starts_with("not-visible")) {
        return (ex, Err(("concurrent:acknowledged-record-not-visible".into(), format!("{}: the record was not readable when append returned", n))));
    }
    if let Some(n) = notes.first() {
        return (ex, Err(("concurrent:append-error".into(), n.clone())));
    }
    // final content: whole records, each exactly once, per-thread order
    let content = std::fs::read(&path).unwrap_or_default();
    let mut rest: &[u8] = &content;
    let mut next = vec![0usize; h.threads];
    let mut order = vec![];
    'outer: while !rest.is_empty() {
        for t in 0..h.threads {
            if next[t] < h.per_thread {
                let text = payload(&format!("t{}r{}", t, next[t]), h.size);
                if rest.starts_with(text.as_bytes()) {
                    rest = &rest[text.len()..];
                    order.push(format!("t{}r{}", t, next[t]));
                    next[t] += 1;
                    continue 'outer;
                }
            }
        }
        return (
            ex,
            Err((
                "concurrent:interleaved-or-reordered".into(),
                format!("after {:?} the file continues with {:?}, which is not the next whole record of any thread", order, show_bytes(&rest[..rest.len().min(60)])),
            )),
        );
    }
    if next.iter().any(|n| *n < h.per_thread) {
        return (ex, Err(("concurrent:record-lost".into(), format!("file holds only {:?}", order))));
    }
    (ex, Ok(order.join(",")))
}

pub fn sharnesses(tier: Tier) -> Vec<(SHarness, usize)> {
    match tier {
        Tier::Quick => vec![
            (SHarness { threads: 2, per_thread: 2, size: 24, chunks: 2 }, 3),
            (SHarness { threads: 2, per_thread: 1, size: 1500, chunks: 3 }, 3),
            (SHarness { threads: 3, per_thread: 1, size: 24, chunks: 2 }, 2),
        ],
        Tier::Thorough => vec![
            (SHarness { threads: 2, per_thread: 2, size: 24, chunks: 2 }, 4),
            (SHarness { threads: 2, per_thread: 2, size: 1500, chunks: 3 }, 3),
            (SHarness { threads: 3, per_thread: 1, size: 24, chunks: 3 }, 3),
            (SHarness { threads: 3, per_thread: 2, size: 1100, chunks: 2 }, 2),
        ],
    }
}

pub fn run(ctx: &Ctx) -> Report {
    let mut rep = Report::new("model_checking");
    rep.set(
        "rule",
        "E-HIST: per world (open mode, pre-existing file absent/empty/'old', nested directories, 1- or 3-chunk encoder) breadth-first exploration over append(0|1|1023|1024|1025|2500 bytes) and reopen, \
         every transition replayed from scratch, the file read back after every single call. E-SCHED: 2-3 real threads x 1-2 appends under the baton scheduler, scheduling points at every shim lock \
         operation and between the encoder's chunks, all schedules up to the preemption bound; after each returned append the record must already be readable; the final file must be whole records, each once, \
         per-thread order kept",
    );
    let depth = ctx.tier.pick(5, 6);
    let mut notes = vec![];
    let mut complete = true;
    for w in fworlds(ctx.tier) {
        let (stats, viols) = hist::explore(&w, depth, ctx);
        rep.add("states", stats.states);
        rep.add("transitions", stats.transitions);
        rep.add("traces_validated_against_impl", stats.replays);
        complete &= stats.complete;
        notes.push(format!("{}: states={} transitions={}", w.describe(), stats.states, stats.transitions));
        for v in viols {
            rep.violation(v.signature, format!("[{}] after {:?}: {}", w.describe(), v.path, v.detail), json!({"kind": "history", "world": {"append": w.append, "pre": w.pre, "nested": w.nested, "chunks": w.chunks}, "path": v.path.iter().map(|o| match o { FOp::Append(n) => json!({"append": n}), FOp::AppendOld(n) => json!({"append_old": n}), FOp::Reopen => json!("reopen") }).collect::<Vec<_>>()}));
        }
    }
    fd_deviations(&mut rep);
    hard_failures(&mut rep);
    rep.set("max_depth", depth as u64);
    rep.sample(json!({"world": "truncate pre='old\\n' nested chunks=3", "path": [{"append": 1025}, "reopen", {"append": 0}, {"append": 2500}]}));
    for (h, bound) in sharnesses(ctx.tier) {
        let (stats, outcomes, viols) = sched::explore(bound, |p| sched_exec(&h, p), &|| ctx.over_cap());
        rep.add("schedules_executed", stats.schedules);
        rep.add("schedules_reexecuted_for_determinism", stats.reexecuted);
        rep.add("schedule_reexecutions_diverged", stats.diverged);
        rep.add("distinct_schedule_outcomes", outcomes.len() as u64);
        complete &= stats.complete;
        notes.push(format!("{}: schedules={} preemption bound {} (by preemptions {:?}) max points {} distinct outcomes {}", h.describe(), stats.schedules, bound, stats.by_preemptions, stats.max_points, outcomes.len()));
        rep.sample(json!({"harness": h.describe(), "outcomes": outcomes.keys().take(4).collect::<Vec<_>>()}));
        for (sig, detail, choices) in viols {
            if sig == "MACHINERY" {
                eprintln!("MACHINERY FAILURE: {}", detail);
                std::process::exit(2);
            }
            rep.violation(sig, format!("[{}] schedule {:?}: {}", h.describe(), choices, detail), json!({"kind": "schedule", "harness": {"threads": h.threads, "per_thread": h.per_thread, "size": h.size, "chunks": h.chunks}, "schedule": choices}));
        }
    }
    rep.set("explorations", json!(notes));
    rep.set("exhaustive", complete);
    rep.assume("data-race freedom of safe Rust; scheduling is sequentially consistent at points; the crate's only unsafe is the isatty FFI call");
    rep
}

pub fn replay(case: &Value) -> Result<(), String> {
    if case["kind"] == "hard-fault" {
        let mut rep = Report::new("model_checking");
        hard_failures(&mut rep);
        return match rep.violations().first() {
            Some(v) => Err(format!("{}: {}", v.signature, v.detail)),
            None => Ok(()),
        };
    }
    if case["kind"] == "fd-deviation" {
        let mut rep = Report::new("model_checking");
        fd_deviations(&mut rep);
        return match rep.violations().first() {
            Some(v) => Err(format!("{}: {}", v.signature, v.detail)),
            None => Ok(()),
        };
    }
    if case["kind"] == "schedule" {
        let h = &case["harness"];
        let h = SHarness { threads: h["threads"].as_u64().unwrap_or(2) as usize, per_thread: h["per_thread"].as_u64().unwrap_or(1) as usize, size: h["size"].as_u64().unwrap_or(24) as usize, chunks: h["chunks"].as_u64().unwrap_or(2) as usize };
        let sch: Vec<usize> = case["schedule"].as_array().ok_or("bad schedule")?.iter().filter_map(|x| x.as_u64().map(|n| n as usize)).collect();
        let (ex, verdict) = sched_exec(&h, &sch);
        if ex.choices() != sch && ex.aborted.is_none() && ex.choices().len() < sch.len() {
            return Err("schedule could not be followed".into());
        }
        return verdict.map(|_| ()).map_err(|(s, d)| format!("{}: {}", s, d));
    }
    let w = &case["world"];
    let pre: Option<&'static str> = match w["pre"].as_str() {
        None => None,
        Some("") => Some(""),
        Some(_) => Some("old\n"),
    };
    let world = FWorld { append: w["append"].as_bool().unwrap_or(true), pre, nested: w["nested"].as_bool().unwrap_or(false), chunks: w["chunks"].as_u64().unwrap_or(1) as usize, sizes: vec![] };
    let path: Vec<FOp> = case["path"].as_array().ok_or("bad path")?.iter().map(|o| match (o.get("append"), o.get("append_old")) { (Some(n), _) => FOp::Append(n.as_u64().unwrap_or(0) as usize), (_, Some(n)) => FOp::AppendOld(n.as_u64().unwrap_or(0) as usize), _ => FOp::Reopen }).collect();
    world.conform(&path).map_err(|(s, d)| format!("{}: {}", s, d))
}
