//! C14 — configuration files mean what they say in every format; loading is total and lossy.
//! E-ENUM over logical configurations rendered by harness printers into YAML, JSON and TOML, loaded
//! with the real loaders and compared *behaviourally* with the programmatic Config built from the same
//! logical value; plus fault documents (unknown keys, wrong types, unknown kinds, dangling names,
//! degenerate numbers) injected at every position.

use super::routing::{self, ConfSpec, LoggerSpec};
use crate::engine::{
    capture::{self, CaptureAppender},
    catch_panic, hooks, panic_site,
    sandbox::{files, snapshot, Sandbox},
    Ctx, Report, Tier,
};
use log::{Level, LevelFilter, Log, Record};
use log4rs::{
    append::{
        file::FileAppender,
        rolling_file::{
            policy::compound::{
                roll::{delete::DeleteRoller, fixed_window::FixedWindowRoller, Roll},
                trigger::{onstartup::OnStartUpTrigger, size::SizeTrigger, time::TimeTrigger, Trigger},
                CompoundPolicy,
            },
            RollingFileAppender,
        },
        Append,
    },
    config::{Appender, Config, Logger, RawConfig, Root},
    encode::{json::JsonEncoder, pattern::PatternEncoder, Encode},
    filter::threshold::ThresholdFilter,
};
use rayon::prelude::*;
use serde_json::{json, Value};
use std::collections::BTreeMap;
use std::sync::atomic::{AtomicU64, Ordering};

// ------------------------------------------------------------------------------- document tree
#[derive(Clone, Debug, PartialEq)]
pub enum Node {
    Str(String),
    Int(i128),
    Bool(bool),
    List(Vec<Node>),
    Map(Vec<(String, Node)>),
}

fn s(x: &str) -> Node {
    Node::Str(x.to_string())
}

fn q(x: &str) -> String {
    format!("\"{}\"", x.replace('\\', "\\\\").replace('"', "\\\""))
}

pub fn to_json(n: &Node) -> String {
    match n {
        Node::Str(x) => q(x),
        Node::Int(i) => i.to_string(),
        Node::Bool(b) => b.to_string(),
        Node::List(l) => format!("[{}]", l.iter().map(to_json).collect::<Vec<_>>().join(", ")),
        Node::Map(m) => format!("{{{}}}", m.iter().map(|(k, v)| format!("{}: {}", q(k), to_json(v))).collect::<Vec<_>>().join(", ")),
    }
}

/// YAML block style (maps and lists indented; scalars quoted when they are strings)
pub fn to_yaml(n: &Node, indent: usize) -> String {
    let pad = " ".repeat(indent);
    match n {
        Node::Map(m) if m.is_empty() => "{}\n".to_string(),
        Node::Map(m) => {
            let mut out = String::new();
            for (k, v) in m {
                match v {
                    Node::Map(x) if !x.is_empty() => out.push_str(&format!("{}{}:\n{}", pad, q(k), to_yaml(v, indent + 2))),
                    Node::List(x) if !x.is_empty() && x.iter().any(|e| matches!(e, Node::Map(_))) => out.push_str(&format!("{}{}:\n{}", pad, q(k), to_yaml(v, indent + 2))),
                    _ => out.push_str(&format!("{}{}: {}\n", pad, q(k), to_json(v))),
                }
            }
            out
        }
        Node::List(l) => {
            let mut out = String::new();
            for e in l {
                match e {
                    Node::Map(_) => {
                        let body = to_yaml(e, indent + 2);
                        out.push_str(&format!("{}- {}", pad, body.trim_start()));
                    }
                    _ => out.push_str(&format!("{}- {}\n", pad, to_json(e))),
                }
            }
            out
        }
        other => format!("{}{}\n", pad, to_json(other)),
    }
}

/// TOML with inline tables: `key = value` per top-level key
pub fn to_toml(n: &Node) -> String {
    fn val(n: &Node) -> String {
        match n {
            Node::Str(x) => q(x),
            Node::Int(i) => i.to_string(),
            Node::Bool(b) => b.to_string(),
            Node::List(l) => format!("[{}]", l.iter().map(val).collect::<Vec<_>>().join(", ")),
            Node::Map(m) => format!("{{ {} }}", m.iter().map(|(k, v)| format!("{} = {}", q(k), val(v))).collect::<Vec<_>>().join(", ")),
        }
    }
    match n {
        Node::Map(m) => m.iter().map(|(k, v)| format!("{} = {}\n", q(k), val(v))).collect(),
        _ => String::new(),
    }
}

// ------------------------------------------------------------------------------- logical configuration
#[derive(Clone, Debug, PartialEq)]
pub enum Enc {
    Absent,
    /// (kind key present, pattern key present)
    Pattern(bool, bool),
    Json,
}

#[derive(Clone, Debug, PartialEq)]
pub enum Trg {
    Size,
    /// limit written as an integer scalar
    SizeInt(u64),
    Time,
    /// min_size absent / value
    OnStartup(Option<u64>),
}

#[derive(Clone, Debug, PartialEq)]
pub enum Rol {
    Delete,
    /// base absent / value
    Fixed(Option<u32>),
}

#[derive(Clone, Debug, PartialEq)]
pub enum Kind {
    Capture,
    File { append: Option<bool>, enc: Enc },
    Rolling { append: Option<bool>, enc: Enc, policy_kind: bool, trg: Trg, rol: Rol },
}

#[derive(Clone, Debug, PartialEq)]
pub struct App {
    pub name: String,
    pub kind: Kind,
    pub thresholds: Vec<LevelFilter>,
}

#[derive(Clone, Debug, PartialEq)]
pub struct Lc {
    pub refresh: Option<u32>,
    pub root_level: Option<LevelFilter>,
    pub root_apps: Vec<String>,
    /// (name, level, additive, appenders)
    pub loggers: Vec<(String, LevelFilter, Option<bool>, Vec<String>)>,
    pub apps: Vec<App>,
}

const PAT: &str = "{l} {t} {m}{n}";

fn enc_node(e: &Enc) -> Option<Node> {
    match e {
        Enc::Absent => None,
        Enc::Pattern(kind, pat) => {
            let mut m = vec![];
            if *kind {
                m.push(("kind".to_string(), s("pattern")));
            }
            if *pat {
                m.push(("pattern".to_string(), s(PAT)));
            }
            Some(Node::Map(m))
        }
        Enc::Json => Some(Node::Map(vec![("kind".to_string(), s("json"))])),
    }
}

fn lvl(l: LevelFilter) -> Node {
    s(&l.to_string().to_lowercase())
}

/// renders the logical configuration as a document tree; `root` is the sandbox directory, `tagp` the capture tag prefix
pub fn doc(lc: &Lc, root: &str, tagp: &str) -> Node {
    let mut top = vec![];
    if let Some(r) = lc.refresh {
        top.push(("refresh_rate".to_string(), s(&format!("{} seconds", r))));
    }
    let mut apps = vec![];
    for a in &lc.apps {
        let mut m = vec![];
        match &a.kind {
            Kind::Capture => {
                m.push(("kind".to_string(), s("capture")));
                m.push(("tag".to_string(), s(&format!("{}{}", tagp, a.name))));
            }
            Kind::File { append, enc } => {
                m.push(("kind".to_string(), s("file")));
                m.push(("path".to_string(), s(&format!("{}/{}.log", root, a.name))));
                if let Some(ap) = append {
                    m.push(("append".to_string(), Node::Bool(*ap)));
                }
                if let Some(e) = enc_node(enc) {
                    m.push(("encoder".to_string(), e));
                }
            }
            Kind::Rolling { append, enc, policy_kind, trg, rol } => {
                m.push(("kind".to_string(), s("rolling_file")));
                m.push(("path".to_string(), s(&format!("{}/{}.log", root, a.name))));
                if let Some(ap) = append {
                    m.push(("append".to_string(), Node::Bool(*ap)));
                }
                if let Some(e) = enc_node(enc) {
                    m.push(("encoder".to_string(), e));
                }
                let mut p = vec![];
                if *policy_kind {
                    p.push(("kind".to_string(), s("compound")));
                }
                let t = match trg {
                    Trg::Size => vec![("kind".to_string(), s("size")), ("limit".to_string(), s("40 b"))],
                    Trg::SizeInt(n) => vec![("kind".to_string(), s("size")), ("limit".to_string(), Node::Int(*n as i128))],
                    Trg::Time => vec![("kind".to_string(), s("time")), ("interval".to_string(), s("1 hour"))],
                    Trg::OnStartup(None) => vec![("kind".to_string(), s("onstartup"))],
                    Trg::OnStartup(Some(n)) => vec![("kind".to_string(), s("onstartup")), ("min_size".to_string(), Node::Int(*n as i128))],
                };
                p.push(("trigger".to_string(), Node::Map(t)));
                let r = match rol {
                    Rol::Delete => vec![("kind".to_string(), s("delete"))],
                    Rol::Fixed(base) => {
                        let mut r = vec![("kind".to_string(), s("fixed_window")), ("pattern".to_string(), s(&format!("{}/{}.{{}}.log", root, a.name))), ("count".to_string(), Node::Int(2))];
                        if let Some(b) = base {
                            r.push(("base".to_string(), Node::Int(*b as i128)));
                        }
                        r
                    }
                };
                p.push(("roller".to_string(), Node::Map(r)));
                m.push(("policy".to_string(), Node::Map(p)));
            }
        }
        if !a.thresholds.is_empty() {
            m.push(("filters".to_string(), Node::List(a.thresholds.iter().map(|t| Node::Map(vec![("kind".to_string(), s("threshold")), ("level".to_string(), lvl(*t))])).collect())));
        }
        apps.push((a.name.clone(), Node::Map(m)));
    }
    top.push(("appenders".to_string(), Node::Map(apps)));
    let mut root_m = vec![];
    if let Some(l) = lc.root_level {
        root_m.push(("level".to_string(), lvl(l)));
    }
    root_m.push(("appenders".to_string(), Node::List(lc.root_apps.iter().map(|a| s(a)).collect())));
    top.push(("root".to_string(), Node::Map(root_m)));
    if !lc.loggers.is_empty() {
        let mut ls = vec![];
        for (name, level, additive, apps) in &lc.loggers {
            let mut m = vec![("level".to_string(), lvl(*level))];
            if let Some(a) = additive {
                m.push(("additive".to_string(), Node::Bool(*a)));
            }
            m.push(("appenders".to_string(), Node::List(apps.iter().map(|a| s(a)).collect())));
            ls.push((name.clone(), Node::Map(m)));
        }
        top.push(("loggers".to_string(), Node::Map(ls)));
    }
    Node::Map(top)
}

fn make_encoder(e: &Enc) -> Option<Box<dyn Encode>> {
    match e {
        Enc::Absent => None,
        Enc::Pattern(_, true) => Some(Box::new(PatternEncoder::new(PAT))),
        Enc::Pattern(_, false) => Some(Box::<PatternEncoder>::default()),
        Enc::Json => Some(Box::new(JsonEncoder::new())),
    }
}

/// the programmatic configuration built from the same logical value through the public builders
pub fn build_programmatic(lc: &Lc, root: &str, tagp: &str) -> Result<Config, String> {
    let mut b = Config::builder();
    for a in &lc.apps {
        let app: Box<dyn Append> = match &a.kind {
            Kind::Capture => {
                let mut r = capture::REGISTRY.lock().unwrap();
                let serial = r.built.len();
                let tag = format!("{}{}", tagp, a.name);
                r.built.push(tag.clone());
                Box::new(CaptureAppender { tag, serial })
            }
            Kind::File { append, enc } => {
                let mut fb = FileAppender::builder();
                if let Some(ap) = append {
                    fb = fb.append(*ap);
                }
                if let Some(e) = make_encoder(enc) {
                    fb = fb.encoder(e);
                }
                Box::new(fb.build(format!("{}/{}.log", root, a.name)).map_err(|e| e.to_string())?)
            }
            Kind::Rolling { append, enc, trg, rol, .. } => {
                let trigger: Box<dyn Trigger> = match trg {
                    Trg::Size => Box::new(SizeTrigger::new(40)),
                    Trg::SizeInt(n) => Box::new(SizeTrigger::new(*n)),
                    Trg::Time => Box::new(TimeTrigger::new(serde_yaml::from_str("interval: 1 hour").map_err(|e: serde_yaml::Error| e.to_string())?)),
                    Trg::OnStartup(n) => Box::new(OnStartUpTrigger::new(n.unwrap_or(1))),
                };
                let roller: Box<dyn Roll> = match rol {
                    Rol::Delete => Box::new(DeleteRoller::new()),
                    Rol::Fixed(base) => Box::new(FixedWindowRoller::builder().base(base.unwrap_or(0)).build(&format!("{}/{}.{{}}.log", root, a.name), 2).map_err(|e| e.to_string())?),
                };
                let mut rb = RollingFileAppender::builder();
                if let Some(ap) = append {
                    rb = rb.append(*ap);
                }
                if let Some(e) = make_encoder(enc) {
                    rb = rb.encoder(e);
                }
                Box::new(rb.build(format!("{}/{}.log", root, a.name), Box::new(CompoundPolicy::new(trigger, roller))).map_err(|e| e.to_string())?)
            }
        };
        let mut ab = Appender::builder();
        for t in &a.thresholds {
            ab = ab.filter(Box::new(ThresholdFilter::new(*t)));
        }
        b = b.appender(ab.build(a.name.clone(), app));
    }
    for (name, level, additive, apps) in &lc.loggers {
        b = b.logger(Logger::builder().additive(additive.unwrap_or(true)).appenders(apps.iter().cloned()).build(name.clone(), *level));
    }
    b.build(Root::builder().appenders(lc.root_apps.iter().cloned()).build(lc.root_level.unwrap_or(LevelFilter::Debug))).map_err(|e| e.to_string())
}

// ------------------------------------------------------------------------------- observation
pub const PROBES: [(&str, Level); 12] = [
    ("a", Level::Error),
    ("a", Level::Info),
    ("a", Level::Trace),
    ("a::b", Level::Warn),
    ("a::b", Level::Debug),
    ("a::b::c", Level::Info),
    ("b", Level::Error),
    ("b", Level::Debug),
    ("", Level::Info),
    ("a:b", Level::Warn),
    ("a::bb", Level::Error),
    ("a", Level::Debug),
];

#[derive(Clone, Debug, PartialEq)]
pub struct Obs {
    /// capture appender name -> messages
    pub captured: BTreeMap<String, Vec<String>>,
    /// file (relative) -> normalised content
    pub files: BTreeMap<String, String>,
}

static CASE: AtomicU64 = AtomicU64::new(0);

fn normalise(name: &str, content: &[u8], lc: &Lc) -> String {
    let text = String::from_utf8_lossy(content).into_owned();
    let app = name.split('.').next().unwrap_or("");
    let enc = lc.apps.iter().find(|a| a.name == app).map(|a| match &a.kind {
        Kind::File { enc, .. } | Kind::Rolling { enc, .. } => enc.clone(),
        _ => Enc::Absent,
    });
    match enc {
        Some(Enc::Json) => text
            .lines()
            .map(|l| match serde_json::from_str::<Value>(l) {
                Ok(mut v) => {
                    if let Some(o) = v.as_object_mut() {
                        o.remove("time");
                        o.remove("thread");
                        o.remove("thread_id");
                    }
                    v.to_string()
                }
                Err(_) => format!("<not json: {}>", l),
            })
            .collect::<Vec<_>>()
            .join("\n"),
        // default pattern "{d} {l} {t} - {m}{n}": drop the leading timestamp
        Some(Enc::Absent) | Some(Enc::Pattern(_, false)) => text.lines().map(|l| l.split_once(' ').map(|x| x.1).unwrap_or(l).to_string()).collect::<Vec<_>>().join("\n"),
        _ => text,
    }
}

thread_local! {
    /// whether the log files exist (with content) before the configuration is loaded
    static SEEDED: std::cell::Cell<bool> = const { std::cell::Cell::new(true) };
}

/// pre-existing content so that append/truncate defaults and on-start-up rotation are observable;
/// every configuration is also checked over an empty directory (min_size defaults, first-open behaviour)
fn seed_files(lc: &Lc, sb: &Sandbox) {
    if !SEEDED.with(|s| s.get()) {
        return;
    }
    for a in &lc.apps {
        if !matches!(a.kind, Kind::Capture) {
            std::fs::write(sb.path(&format!("{}.log", a.name)), b"previous run\n").unwrap();
        }
    }
}

fn drive(logger: &log4rs::Logger, lc: &Lc, sb: &Sandbox, tagp: &str) -> Result<Obs, String> {
    for (i, (t, l)) in PROBES.iter().enumerate() {
        let msg = format!("m{}", i);
        let r = catch_panic(|| logger.log(&Record::builder().target(t).level(*l).args(format_args!("{}", msg)).build()));
        if let Err(p) = r {
            return Err(format!("panic while logging: {}", p));
        }
    }
    let mut captured: BTreeMap<String, Vec<String>> = BTreeMap::new();
    for (tag, _, msg) in capture::take_deliveries_for(tagp) {
        captured.entry(tag[tagp.len()..].to_string()).or_default().push(msg);
    }
    let mut fl = BTreeMap::new();
    for (name, content) in files(&snapshot(&sb.dir)) {
        if name.ends_with(".yaml") || name.ends_with(".yml") || name.ends_with(".json") || name.ends_with(".toml") || name.ends_with(".cfg") {
            continue;
        }
        fl.insert(name.clone(), normalise(&name, &content, lc));
    }
    Ok(Obs { captured, files: fl })
}

pub const FORMATS: [&str; 3] = ["yaml", "json", "toml"];

fn render(tree: &Node, fmt: &str) -> String {
    match fmt {
        "yaml" | "yml" => to_yaml(tree, 0),
        "json" => to_json(tree),
        _ => to_toml(tree),
    }
}

/// loads the rendered document with the real lossy loader and drives the probes
fn observe_file(lc: &Lc, tree_of: &dyn Fn(&str, &str) -> Node, fmt: &str) -> Result<Obs, String> {
    let sb = Sandbox::new();
    let tagp = format!("k{}-", CASE.fetch_add(1, Ordering::Relaxed));
    seed_files(lc, &sb);
    let text = render(&tree_of(&sb.dir.to_string_lossy(), &tagp), fmt);
    let path = sb.path(&format!("log4rs.{}", fmt));
    std::fs::write(&path, &text).unwrap();
    let cfg = match catch_panic(|| log4rs::config::load_config_file(&path, capture::deserializers_with_capture())) {
        Err(p) => return Err(format!("panic in load_config_file: {}", p)),
        Ok(Err(e)) => return Err(format!("load_config_file rejected the document: {}\n{}", e, text)),
        Ok(Ok(c)) => c,
    };
    let logger = catch_panic(|| log4rs::Logger::new(cfg)).map_err(|p| format!("panic in Logger::new: {}", p))?;
    drive(&logger, lc, &sb, &tagp)
}

fn observe_programmatic(lc: &Lc) -> Result<Obs, String> {
    let sb = Sandbox::new();
    let tagp = format!("k{}-", CASE.fetch_add(1, Ordering::Relaxed));
    seed_files(lc, &sb);
    let cfg = build_programmatic(lc, &sb.dir.to_string_lossy(), &tagp)?;
    let logger = log4rs::Logger::new(cfg);
    drive(&logger, lc, &sb, &tagp)
}

/// what the routing reference says the capture appenders receive
fn reference_captured(lc: &Lc) -> BTreeMap<String, Vec<String>> {
    let spec = ConfSpec {
        appender_names: lc.apps.iter().map(|a| a.name.clone()).collect(),
        root_level: lc.root_level.unwrap_or(LevelFilter::Debug),
        root_appenders: lc.root_apps.clone(),
        loggers: lc.loggers.iter().map(|(n, l, a, apps)| LoggerSpec { name: n.clone(), level: *l, additive: a.unwrap_or(true), appenders: apps.clone() }).collect(),
    };
    let mut out: BTreeMap<String, Vec<String>> = BTreeMap::new();
    for (i, (t, l)) in PROBES.iter().enumerate() {
        let r = &routing::routes(&spec, t, *l)[0];
        for (name, count) in &r.deliveries {
            let app = lc.apps.iter().find(|a| &a.name == name).unwrap();
            if !matches!(app.kind, Kind::Capture) {
                continue;
            }
            if app.thresholds.iter().any(|th| !routing::admits(*th, *l)) {
                continue;
            }
            for _ in 0..*count {
                out.entry(name.clone()).or_default().push(format!("m{}", i));
            }
        }
    }
    out
}

fn lc_json(lc: &Lc) -> Value {
    json!({"document_yaml": to_yaml(&doc(lc, "$ROOT", ""), 0)})
}

/// One logical configuration: three formats + programmatic must behave identically and as the reference says.
pub fn check_lc(lc: &Lc) -> Option<(String, String)> {
    for seeded in [true, false] {
        SEEDED.with(|s| s.set(seeded));
        let r = check_lc_once(lc);
        SEEDED.with(|s| s.set(true));
        if let Some((sig, d)) = r {
            return Some((sig, format!("[log files {} before loading] {}", if seeded { "exist" } else { "do not exist" }, d)));
        }
    }
    None
}

fn check_lc_once(lc: &Lc) -> Option<(String, String)> {
    hooks::set_now(Some(super::rolling::clock_at(17)));
    let r = (|| {
        let prog = match observe_programmatic(lc) {
            Ok(o) => o,
            Err(e) => return Some(("programmatic-build-failed".to_string(), e)),
        };
        let want = reference_captured(lc);
        if prog.captured != want {
            return Some(("programmatic:routing-differs-from-reference".into(), format!("captured {:?}, reference {:?}", prog.captured, want)));
        }
        for fmt in FORMATS {
            let o = match observe_file(lc, &|root, tagp| doc(lc, root, tagp), fmt) {
                Ok(o) => o,
                Err(e) => {
                    let sig = if e.starts_with("panic") { format!("{}:panic:{}", fmt, panic_site(&e)) } else { format!("{}:valid-document-rejected", fmt) };
                    return Some((sig, e));
                }
            };
            if o.captured != prog.captured {
                return Some((format!("{}:routing-differs-from-programmatic", fmt), format!("file-built logger delivered {:?}, programmatic {:?}", o.captured, prog.captured)));
            }
            if o.files != prog.files {
                let which: Vec<&String> = o.files.keys().chain(prog.files.keys()).filter(|k| o.files.get(*k) != prog.files.get(*k)).collect();
                return Some((format!("{}:file-output-differs-from-programmatic", fmt), format!("files that differ: {:?}; file-built {:?} vs programmatic {:?}", which, o.files, prog.files)));
            }
        }
        None
    })();
    hooks::set_now(None);
    r
}

// ------------------------------------------------------------------------------- catalogue
fn enc_variants() -> Vec<Enc> {
    vec![Enc::Absent, Enc::Pattern(false, true), Enc::Pattern(true, true), Enc::Pattern(true, false), Enc::Json]
}

fn app_variants(tier: Tier) -> Vec<(Kind, Vec<LevelFilter>)> {
    let mut kinds = vec![Kind::Capture];
    for append in [None, Some(true), Some(false)] {
        for enc in enc_variants() {
            kinds.push(Kind::File { append, enc });
        }
    }
    for append in [None, Some(true), Some(false)] {
        for policy_kind in [false, true] {
            for trg in [Trg::Size, Trg::SizeInt(0), Trg::SizeInt(40), Trg::Time, Trg::OnStartup(None), Trg::OnStartup(Some(0)), Trg::OnStartup(Some(500))] {
                for rol in [Rol::Delete, Rol::Fixed(None), Rol::Fixed(Some(1))] {
                    let encs = if tier == Tier::Thorough { enc_variants() } else { vec![Enc::Pattern(false, true), Enc::Absent] };
                    for enc in encs {
                        kinds.push(Kind::Rolling { append, enc, policy_kind, trg: trg.clone(), rol: rol.clone() });
                    }
                }
            }
        }
    }
    let mut out = vec![];
    for k in kinds {
        for th in [vec![], vec![LevelFilter::Warn], vec![LevelFilter::Info, LevelFilter::Error]] {
            if tier == Tier::Quick && !th.is_empty() && matches!(k, Kind::Rolling { .. }) {
                continue;
            }
            out.push((k.clone(), th));
        }
    }
    out
}

fn logger_variants() -> Vec<Vec<(String, LevelFilter, Option<bool>, Vec<String>)>> {
    let mut v = vec![vec![]];
    for additive in [None, Some(true), Some(false)] {
        v.push(vec![("a".to_string(), LevelFilter::Info, additive, vec!["y".to_string()])]);
        v.push(vec![("a".to_string(), LevelFilter::Warn, Some(false), vec!["x".to_string()]), ("a::b".to_string(), LevelFilter::Trace, additive, vec!["y".to_string(), "x".to_string()])]);
    }
    v
}

pub fn catalogue(tier: Tier) -> Vec<Lc> {
    let mut out = vec![];
    for (kind, th) in app_variants(tier) {
        for loggers in logger_variants() {
            for (root_level, refresh) in [(Some(LevelFilter::Info), None), (None, Some(30u32))] {
                out.push(Lc {
                    refresh,
                    root_level,
                    root_apps: vec!["x".to_string()],
                    loggers: loggers.clone(),
                    apps: vec![App { name: "x".into(), kind: Kind::Capture, thresholds: vec![] }, App { name: "y".into(), kind: kind.clone(), thresholds: th.clone() }],
                });
            }
        }
    }
    out
}

// ------------------------------------------------------------------------------- key orders
fn permutations<T: Clone>(v: &[T]) -> Vec<Vec<T>> {
    if v.len() <= 1 {
        return vec![v.to_vec()];
    }
    let mut out = vec![];
    for i in 0..v.len() {
        let mut rest = v.to_vec();
        let x = rest.remove(i);
        for mut p in permutations(&rest) {
            p.insert(0, x.clone());
            out.push(p);
        }
    }
    out
}

/// every order of the keys of every map with at most 4 keys in the document (one map at a time)
fn key_orders(tree: &Node) -> Vec<Node> {
    fn paths(n: &Node, cur: &mut Vec<usize>, out: &mut Vec<Vec<usize>>) {
        match n {
            Node::Map(m) => {
                if m.len() >= 2 && m.len() <= 4 {
                    out.push(cur.clone());
                }
                for (i, (_, v)) in m.iter().enumerate() {
                    cur.push(i);
                    paths(v, cur, out);
                    cur.pop();
                }
            }
            Node::List(l) => {
                for (i, v) in l.iter().enumerate() {
                    cur.push(i);
                    paths(v, cur, out);
                    cur.pop();
                }
            }
            _ => {}
        }
    }
    fn at<'a>(n: &'a mut Node, p: &[usize]) -> &'a mut Node {
        if p.is_empty() {
            return n;
        }
        match n {
            Node::Map(m) => at(&mut m[p[0]].1, &p[1..]),
            Node::List(l) => at(&mut l[p[0]], &p[1..]),
            _ => unreachable!(),
        }
    }
    let mut ps = vec![];
    paths(tree, &mut vec![], &mut ps);
    let mut out = vec![];
    for p in ps {
        let mut t = tree.clone();
        if let Node::Map(m) = at(&mut t, &p) {
            for perm in permutations(&m.clone()).into_iter().skip(1) {
                let mut t2 = tree.clone();
                *at(&mut t2, &p) = Node::Map(perm);
                out.push(t2);
            }
        }
    }
    out
}

// ------------------------------------------------------------------------------- fault documents
#[derive(Clone, Debug)]
pub struct Injection {
    /// name of the appender the fault sits in (None: document, root, logger or reference level)
    pub broken: Option<String>,
    pub what: String,
    /// the section kind the fault sits in
    pub section: &'static str,
    pub tree: Node,
}

/// all single injections into the base document
fn injections(base: &Node) -> Vec<Injection> {
    let mut out = vec![];
    fn walk(n: &Node, path: &mut Vec<String>, f: &mut dyn FnMut(&[String], &Node)) {
        f(path, n);
        match n {
            Node::Map(m) => {
                for (k, v) in m {
                    path.push(k.clone());
                    walk(v, path, f);
                    path.pop();
                }
            }
            Node::List(l) => {
                for (i, v) in l.iter().enumerate() {
                    path.push(i.to_string());
                    walk(v, path, f);
                    path.pop();
                }
            }
            _ => {}
        }
    }
    fn replace(n: &Node, path: &[String], new: &dyn Fn(&Node) -> Node) -> Node {
        if path.is_empty() {
            return new(n);
        }
        match n {
            Node::Map(m) => Node::Map(m.iter().map(|(k, v)| if *k == path[0] { (k.clone(), replace(v, &path[1..], new)) } else { (k.clone(), v.clone()) }).collect()),
            Node::List(l) => Node::List(l.iter().enumerate().map(|(i, v)| if i.to_string() == path[0] { replace(v, &path[1..], new) } else { v.clone() }).collect()),
            other => other.clone(),
        }
    }
    let section_of = |path: &[String]| -> Option<&'static str> {
        let p: Vec<&str> = path.iter().map(|s| s.as_str()).collect();
        match p.as_slice() {
            [] => Some("document"),
            ["root"] => Some("root"),
            ["loggers", _] => Some("logger"),
            ["appenders", _] => Some("appender"),
            ["appenders", _, "encoder"] => Some("encoder"),
            ["appenders", _, "policy"] => Some("policy"),
            ["appenders", _, "policy", "trigger"] => Some("trigger"),
            ["appenders", _, "policy", "roller"] => Some("roller"),
            _ => None,
        }
    };
    let mut sites: Vec<(Vec<String>, Node)> = vec![];
    walk(base, &mut vec![], &mut |p, n| sites.push((p.to_vec(), n.clone())));
    for (path, node) in &sites {
        // unknown key in every section
        if let (Some(sec), Node::Map(_)) = (section_of(path), node) {
            out.push(Injection {
                broken: if path.first().map(|x| x.as_str()) == Some("appenders") { path.get(1).cloned() } else { None },
                what: format!("unknown key 'bogus' in {} section at /{}", sec, path.join("/")),
                section: sec,
                tree: replace(base, path, &|n| match n {
                    Node::Map(m) => {
                        let mut m = m.clone();
                        m.push(("bogus".to_string(), Node::Int(1)));
                        Node::Map(m)
                    }
                    o => o.clone(),
                }),
            });
        }
        // scalars: wrong type, degenerate numbers, unknown kinds
        let in_app = path.first().map(|s| s.as_str()) == Some("appenders");
        let sec: &'static str = if path.is_empty() { "document" } else if in_app { "appender" } else if path[0] == "root" { "root" } else if path[0] == "loggers" { "logger" } else { "document" };
        let last = path.last().map(|s| s.as_str()).unwrap_or("");
        match node {
            Node::Str(_) | Node::Bool(_) | Node::Int(_) if !path.is_empty() && path.iter().all(|x| x.parse::<usize>().is_err() || path.len() > 1) => {
                let wrong: Vec<(&str, Node)> = match node {
                    Node::Str(_) if last == "kind" => vec![("unknown kind", s("nope")), ("kind of wrong type", Node::Int(3))],
                    Node::Str(_) if last == "level" => vec![("unknown level", s("loud")), ("level of wrong type", Node::List(vec![]))],
                    Node::Str(_) if last == "limit" => vec![("overflowing size literal", s("16777216 tb")), ("negative size literal", s("-1 kb")), ("unknown size unit", s("10 parsecs")), ("list instead of string", Node::List(vec![Node::Int(1)]))],
                    Node::Str(_) if last == "interval" => vec![("overflowing interval literal", s("9223372036854775808 seconds")), ("negative interval literal", s("-1 hour")), ("unknown interval unit", s("3 fortnights"))],
                    Node::Str(_) if last == "refresh_rate" => vec![("unknown duration unit", s("30 parsecs")), ("overflowing duration", s("99999999999999999999999 s")), ("list instead of string", Node::List(vec![Node::Int(1)]))],
                    Node::Str(_) => vec![("list instead of string", Node::List(vec![Node::Int(1)])), ("map instead of string", Node::Map(vec![("x".into(), Node::Int(1))]))],
                    Node::Bool(_) => vec![("string instead of bool", s("maybe")), ("number instead of bool", Node::Int(7))],
                    // min_size and an integer limit are 64-bit quantities: 2^32 is a legal value there
                    Node::Int(_) if last == "min_size" || last == "limit" => vec![("negative number", Node::Int(-1)), ("2^64", Node::Int(1 << 64)), ("string instead of number", s("many")), ("bool instead of number", Node::Bool(true))],
                    Node::Int(_) => vec![("negative number", Node::Int(-1)), ("2^32", Node::Int(1 << 32)), ("2^64", Node::Int(1 << 64)), ("string instead of number", s("many")), ("bool instead of number", Node::Bool(true))],
                    _ => vec![],
                };
                for (desc, w) in wrong {
                    // JSON/YAML/TOML cannot all express 2^64 as a number; rendered as written, parsers may reject it at document level
                    out.push(Injection { broken: if in_app { path.get(1).cloned() } else { None }, what: format!("{} at /{}", desc, path.join("/")), section: sec, tree: replace(base, path, &|_| w.clone()) });
                }
            }
            _ => {}
        }
    }
    // dangling appender names
    out.push(Injection { broken: None, what: "dangling appender name in root".into(), section: "reference", tree: replace(base, &["root".to_string(), "appenders".to_string()], &|n| match n { Node::List(l) => { let mut l = l.clone(); l.push(s("ghost")); Node::List(l) } o => o.clone() }) });
    if let Node::Map(top) = base {
        if let Some((_, Node::Map(ls))) = top.iter().find(|(k, _)| k == "loggers") {
            if let Some((lname, _)) = ls.first() {
                out.push(Injection { broken: None, what: "dangling appender name in a logger".into(), section: "reference", tree: replace(base, &["loggers".to_string(), lname.clone(), "appenders".to_string()], &|n| match n { Node::List(l) => { let mut l = l.clone(); l.insert(0, s("ghost")); Node::List(l) } o => o.clone() }) });
            }
        }
    }
    out
}

/// One fault document in one format.  The fault sits in appender `broken` (or in a document-level section).
fn check_injection(lc: &Lc, inj_of: &dyn Fn(&str, &str) -> Option<Injection>, fmt: &str, healthy: &Obs) -> Option<(String, String)> {
    let sb = Sandbox::new();
    let tagp = format!("k{}-", CASE.fetch_add(1, Ordering::Relaxed));
    seed_files(lc, &sb);
    let inj = inj_of(&sb.dir.to_string_lossy(), &tagp)?;
    let text = render(&inj.tree, fmt);
    let path = sb.path(&format!("log4rs.{}", fmt));
    std::fs::write(&path, &text).unwrap();
    // strict pipeline: parse + create_raw_config (default deserializers) — must fail for every fault document
    let strict = catch_panic(|| -> Result<(), String> {
        let raw: RawConfig = match fmt {
            "yaml" => serde_yaml::from_str(&text).map_err(|e| e.to_string())?,
            "json" => serde_json::from_str(&text).map_err(|e| e.to_string())?,
            _ => toml::from_str(&text).map_err(|e| e.to_string())?,
        };
        // the strict pipeline only knows the built-in kinds; use the same steps with the capture kind registered
        let (appenders, errors) = raw.appenders_lossy(&capture::deserializers_with_capture());
        if !errors.is_empty() {
            return Err(format!("{:?}", errors));
        }
        Config::builder().appenders(appenders).loggers(raw.loggers()).build(raw.root()).map(|_| ()).map_err(|e| e.to_string())
    });
    match strict {
        Err(p) => return Some((format!("fault:{}:panic-strict:{}", inj.section, panic_site(&p)), format!("{} [{}]: {}", inj.what, fmt, p))),
        Ok(Ok(())) => return Some((format!("fault:{}:accepted-by-strict-loading", inj.section), format!("{} [{}] was accepted by strict loading:\n{}", inj.what, fmt, text))),
        Ok(Err(_)) => {}
    }
    let _ = capture::take_deliveries_for(&tagp);
    // lossy pipeline
    let lossy = catch_panic(|| log4rs::config::load_config_file(&path, capture::deserializers_with_capture()));
    let cfg = match lossy {
        Err(p) => return Some((format!("fault:{}:panic-lossy:{}", inj.section, panic_site(&p)), format!("{} [{}]: {}", inj.what, fmt, p))),
        Ok(Err(_)) => return None, // the whole document is rejected: allowed
        Ok(Ok(c)) => c,
    };
    let logger = match catch_panic(|| log4rs::Logger::new(cfg)) {
        Ok(l) => l,
        Err(p) => return Some((format!("fault:{}:panic-install:{}", inj.section, panic_site(&p)), format!("{} [{}]: {}", inj.what, fmt, p))),
    };
    let obs = match drive(&logger, lc, &sb, &tagp) {
        Ok(o) => o,
        Err(e) => return Some((format!("fault:{}:panic-logging", inj.section), format!("{} [{}]: {}", inj.what, fmt, e))),
    };
    // lossy loading kept going: every part that is not broken must behave as in the healthy configuration,
    // and the broken appender is either fully working (it was not really broken) or dropped entirely
    // "untouched" = exactly what the seeded directory shows before any logger exists (same normalisation), or empty
    let seeded: BTreeMap<String, String> = {
        let sb0 = Sandbox::new();
        seed_files(lc, &sb0);
        files(&snapshot(&sb0.dir)).into_iter().map(|(n, c)| (n.clone(), normalise(&n, &c, lc))).collect()
    };
    let untouched = |fl: &BTreeMap<&String, &String>| fl.iter().all(|(k, v)| v.is_empty() || seeded.get(*k) == Some(*v) || v.trim_end() == "previous run");
    let y_files: BTreeMap<&String, &String> = obs.files.iter().filter(|(k, _)| k.starts_with("y.")).collect();
    let y_healthy: BTreeMap<&String, &String> = healthy.files.iter().filter(|(k, _)| k.starts_with("y.")).collect();
    match inj.broken.as_deref() {
        Some("x") => {
            if obs.captured.get("x").is_some() && obs.captured.get("x") != healthy.captured.get("x") {
                return Some((format!("fault:{}:broken-appender-half-working", inj.section), format!("{} [{}]: the broken appender x received {:?}", inj.what, fmt, obs.captured.get("x"))));
            }
            if y_files != y_healthy {
                return Some((format!("fault:{}:healthy-part-affected", inj.section), format!("{} [{}]: files of the healthy appender y {:?}, in the unbroken configuration {:?}", inj.what, fmt, y_files, y_healthy)));
            }
        }
        Some(_) if inj.what.contains("/filters/") => {
            // a broken filter is reported and dropped; its appender keeps working without it
            let idx: usize = inj.what.split("/filters/").nth(1).and_then(|r| r.split('/').next()).and_then(|n| n.parse().ok()).unwrap_or(0);
            let mut lc2 = lc.clone();
            if idx < lc2.apps[1].thresholds.len() {
                lc2.apps[1].thresholds.remove(idx);
            }
            let want = observe_programmatic(&lc2).ok();
            let want_y: Option<BTreeMap<&String, &String>> = want.as_ref().map(|w| w.files.iter().filter(|(k, _)| k.starts_with("y.")).collect());
            if obs.captured.get("x") != healthy.captured.get("x") || (Some(&y_files) != want_y.as_ref() && y_files != y_healthy && !untouched(&y_files)) {
                return Some((format!("fault:filter:healthy-part-affected"), format!("{} [{}]: x received {:?}; y files {:?}, expected the appender without the broken filter {:?}", inj.what, fmt, obs.captured.get("x"), y_files, want_y)));
            }
        }
        Some(_) => {
            if obs.captured.get("x") != healthy.captured.get("x") {
                return Some((
                    format!("fault:{}:healthy-part-affected", inj.section),
                    format!("{} [{}]: the healthy appender x received {:?}, in the unbroken configuration {:?}", inj.what, fmt, obs.captured.get("x"), healthy.captured.get("x")),
                ));
            }
            if y_files != y_healthy && !untouched(&y_files) {
                return Some((format!("fault:{}:broken-appender-half-working", inj.section), format!("{} [{}]: files of the broken appender {:?}, healthy {:?}", inj.what, fmt, y_files, y_healthy)));
            }
        }
        None => {
            // document / root / logger / reference level: if loading went on, both appenders must work as before
            // (a dangling reference is reported and stripped, nothing else changes)
            if inj.section == "reference" && (obs.captured.get("x") != healthy.captured.get("x") || y_files != y_healthy) {
                return Some(("fault:reference:healthy-part-affected".into(), format!("{} [{}]: x received {:?} (healthy {:?}), y files {:?} (healthy {:?})", inj.what, fmt, obs.captured.get("x"), healthy.captured.get("x"), y_files, y_healthy)));
            }
        }
    }
    None
}


/// Legal but degenerate values (zero intervals with and without modulation, zero limits, a huge random delay, an
/// empty window, the last base): whatever loading decides, it decides without a panic, and so does the first record.
fn legal_degenerate(rep: &mut Report) {
    let m = |v: Vec<(&str, Node)>| Node::Map(v.into_iter().map(|(k, n)| (k.to_string(), n)).collect());
    let mut triggers: Vec<(String, Node)> = vec![];
    for interval in [Node::Int(0), s("0"), s("0 seconds"), s("0 minutes"), s("0 hours"), s("0 days"), s("0 weeks"), s("0 months"), s("0 years"), s("1 hour")] {
        for modulate in [None, Some(false), Some(true)] {
            for delay in [None, Some(0i128), Some(u64::MAX as i128)] {
                let mut t = vec![("kind", s("time")), ("interval", interval.clone())];
                if let Some(b) = modulate {
                    t.push(("modulate", Node::Bool(b)));
                }
                if let Some(d) = delay {
                    t.push(("max_random_delay", Node::Int(d)));
                }
                triggers.push((format!("time interval={:?} modulate={:?} max_random_delay={:?}", interval, modulate, delay), m(t)));
            }
        }
    }
    triggers.push(("size limit 0".into(), m(vec![("kind", s("size")), ("limit", Node::Int(0))])));
    triggers.push(("size limit '0 b'".into(), m(vec![("kind", s("size")), ("limit", s("0 b"))])));
    triggers.push(("onstartup min_size 0".into(), m(vec![("kind", s("onstartup")), ("min_size", Node::Int(0))])));
    let mut n = 0u64;
    for (tdesc, trig) in &triggers {
        for (rdesc, count, base) in [("window 2", 2i128, None), ("empty window", 0, None), ("last base", 1, Some(u32::MAX as i128)), ("window beyond u32", 2, Some(u32::MAX as i128))] {
            for fmt in FORMATS {
                n += 1;
                let sb = Sandbox::new();
                let mut roller = vec![("kind", s("fixed_window")), ("pattern", s(&format!("{}/y.{{}}.log", sb.dir.display()))), ("count", Node::Int(count))];
                if let Some(b) = base {
                    roller.push(("base", Node::Int(b)));
                }
                let tree = m(vec![
                    ("appenders", m(vec![("y", m(vec![("kind", s("rolling_file")), ("path", s(&format!("{}/y.log", sb.dir.display()))), ("policy", m(vec![("trigger", trig.clone()), ("roller", m(roller))]))]))])),
                    ("root", m(vec![("level", s("info")), ("appenders", Node::List(vec![s("y")]))])),
                ]);
                let path = sb.path(&format!("log4rs.{}", fmt));
                std::fs::write(&path, render(&tree, fmt)).unwrap();
                hooks::set_now(Some(super::rolling::clock_at(17)));
                let r = catch_panic(|| {
                    if let Ok(cfg) = log4rs::config::load_config_file(&path, capture::deserializers_with_capture()) {
                        let logger = log4rs::Logger::new(cfg);
                        logger.log(&Record::builder().target("t").level(log::Level::Warn).args(format_args!("first")).build());
                        logger.log(&Record::builder().target("t").level(log::Level::Warn).args(format_args!("second")).build());
                    }
                });
                if let Err(p) = r {
                    rep.violation(format!("degenerate-legal-value:panic:{}", panic_site(&p)), format!("{} / {} [{}]: {}", tdesc, rdesc, fmt, p), json!({"kind": "degenerate", "trigger": tdesc, "roller": rdesc, "format": fmt}));
                }
            }
        }
    }
    rep.add("evaluations", n);
    rep.set("legal_degenerate_documents", n);
}

pub fn run(ctx: &Ctx) -> Report {
    let mut rep = Report::new("model_checking");
    rep.set(
        "rule",
        "E-ENUM: every logical configuration of the catalogue (appender kinds capture/file/rolling_file with every optional field present or defaulted: append, encoder kind/pattern/json, policy kind, trigger size/time/onstartup(min_size), \
         roller delete/fixed_window(base), 0-2 threshold filters; loggers with additive absent/true/false; root level present/defaulted; refresh_rate) is rendered into YAML, JSON and TOML, loaded with load_config_file and driven \
         with 12 probe records next to the programmatic Config built from the same value: capture deliveries and produced files must be identical in all four and equal to the routing reference. Key orders: every permutation of \
         every map with 2-4 keys. Fault documents: every single injection (unknown key per section, wrong type / degenerate number per scalar, unknown kinds, dangling names) x 3 formats: strict pipeline fails, lossy \
         loading either rejects the document or keeps every healthy part working; never a panic. Non-trivial = configuration with at least one defaulted field, or a fault document",
    );
    // the thorough catalogue is cheap enough for every run
    let cat = catalogue(Tier::Thorough);
    let bad: Vec<(usize, (String, String))> = cat.par_iter().enumerate().filter_map(|(i, lc)| if ctx.over_cap() { None } else { check_lc(lc).map(|m| (i, m)) }).collect();
    rep.add("evaluations", cat.len() as u64 * 8);
    rep.set("logical_configurations", cat.len() as u64);
    rep.add("distinct_nontrivial", cat.len() as u64);
    for (i, (sg, d)) in bad {
        rep.violation(sg, d, json!({"kind": "catalogue", "index": i, "config": lc_json(&cat[i])}));
    }
    // key orders on three representative configurations
    // (thorough: 24 configurations spread over the catalogue)
    let rep_idx: Vec<usize> = match ctx.tier {
        Tier::Quick => vec![cat.len() / 5, cat.len() / 2, cat.len() - 3],
        Tier::Thorough => (0..24).map(|k| (k * cat.len()) / 24 + (k * 7) % 11).filter(|i| *i < cat.len()).collect(),
    };
    let reps: Vec<&Lc> = rep_idx.iter().map(|i| &cat[*i]).collect();
    let mut n_orders = 0u64;
    for lc in &reps {
        let n = key_orders(&doc(lc, "R", "T")).len();
        n_orders += n as u64 * 3;
        let prog = observe_programmatic(lc);
        let found: Vec<(String, String)> = (0..n)
            .into_par_iter()
            .flat_map_iter(|k| {
                let mut v = vec![];
                for fmt in FORMATS {
                    hooks::set_now(Some(super::rolling::clock_at(17)));
                    let o = observe_file(lc, &|root, tagp| key_orders(&doc(lc, root, tagp))[k].clone(), fmt);
                    match (&o, &prog) {
                        (Ok(o), Ok(p)) if o == p => {}
                        (o, _) => v.push((format!("{}:key-order-changes-behaviour", fmt), format!("permutation #{}: {:?}", k, o.as_ref().map(|_| "behaviour differs").map_err(|e| e.clone())))),
                    }
                }
                v
            })
            .collect();
        for (sg, d) in found {
            rep.violation(sg, d, json!({"kind": "key-order", "config": lc_json(lc)}));
        }
    }
    rep.add("evaluations", n_orders);
    rep.set("key_order_documents", n_orders);
    // fault documents on two base configurations (file appender with encoder; rolling appender with policy)
    let bases: Vec<Lc> = cat
        .iter()
        .filter(|lc| {
            !lc.loggers.is_empty()
                && lc.loggers.len() == 2
                && lc.refresh.is_some()
                && match &lc.apps[1].kind {
                    Kind::File { append: Some(true), enc: Enc::Pattern(true, true) } => !lc.apps[1].thresholds.is_empty(),
                    Kind::Rolling { append: Some(true), enc: Enc::Pattern(false, true), policy_kind: true, trg, rol: Rol::Fixed(Some(1)) } => matches!(trg, Trg::Size | Trg::Time | Trg::OnStartup(Some(0))) && lc.apps[1].thresholds.is_empty(),
                    _ => false,
                }
        })
        .filter(|lc| lc.loggers[1].2 == Some(true))
        .cloned()
        .collect();
    // thorough: additionally 16 further two-logger configurations of any appender kind, spread over the catalogue
    let bases: Vec<Lc> = if ctx.tier == Tier::Thorough {
        let extra: Vec<Lc> = cat.iter().filter(|lc| lc.loggers.len() == 2 && lc.refresh.is_some() && lc.loggers[1].2 == Some(true)).cloned().collect();
        let step = (extra.len() / 16).max(1);
        let mut b = bases;
        for lc in extra.into_iter().step_by(step).take(16) {
            if !b.iter().any(|x| lc_json(x) == lc_json(&lc)) {
                b.push(lc);
            }
        }
        b
    } else {
        bases
    };
    let mut n_faults = 0u64;
    for lc in &bases {
        hooks::set_now(Some(super::rolling::clock_at(17)));
        let healthy = match observe_programmatic(lc) {
            Ok(o) => o,
            Err(_) => continue,
        };
        let n = injections(&doc(lc, "R", "T")).len();
        n_faults += n as u64 * 3;
        let found: Vec<(String, String, String)> = (0..n)
            .into_par_iter()
            .flat_map_iter(|k| {
                let mut v = vec![];
                for fmt in FORMATS {
                    hooks::set_now(Some(super::rolling::clock_at(17)));
                    if let Some((sg, d)) = check_injection(lc, &|root, tagp| injections(&doc(lc, root, tagp)).into_iter().nth(k), fmt, &healthy) {
                        v.push((sg, d, injections(&doc(lc, "$ROOT", "")).into_iter().nth(k).map(|i| i.what).unwrap_or_default()));
                    }
                }
                v
            })
            .collect();
        for (sg, d, what) in found {
            rep.violation(sg, d, json!({"kind": "fault", "injection": what, "config": lc_json(lc)}));
        }
    }
    rep.add("evaluations", n_faults);
    rep.add("distinct_nontrivial", n_faults);
    rep.set("fault_documents", n_faults);
    rep.set("fault_base_configurations", bases.len() as u64);
    legal_degenerate(&mut rep);
    // a kind that is registered a second time is built by the factory registered last (documents mean what the
    // *registered* components say): "console" re-registered as the capture appender
    {
        rep.add("evaluations", 3);
        for fmt in FORMATS {
            let tagp = format!("k{}-", CASE.fetch_add(1, Ordering::Relaxed));
            let mut d = log4rs::config::Deserializers::default();
            d.insert("console", capture::CaptureDeserializer);
            let m = |v: Vec<(&str, Node)>| Node::Map(v.into_iter().map(|(k, n)| (k.to_string(), n)).collect());
            let tree = m(vec![
                ("appenders", m(vec![("c", m(vec![("kind", s("console")), ("tag", s(&format!("{}c", tagp)))]))])),
                ("root", m(vec![("level", s("info")), ("appenders", Node::List(vec![s("c")]))])),
            ]);
            let sb = Sandbox::new();
            let path = sb.path(&format!("log4rs.{}", fmt));
            std::fs::write(&path, render(&tree, fmt)).unwrap();
            let got = catch_panic(|| -> Result<usize, String> {
                let cfg = log4rs::config::load_config_file(&path, d).map_err(|e| e.to_string())?;
                let logger = log4rs::Logger::new(cfg);
                logger.log(&Record::builder().target("t").level(log::Level::Warn).args(format_args!("overridden")).build());
                Ok(capture::take_deliveries_for(&tagp).len())
            });
            match got {
                Ok(Ok(1)) => {}
                other => rep.violation(
                    "registered-kind:override-not-used",
                    format!("[{}] kind \"console\" re-registered with the capture factory: expected one captured delivery, got {:?}", fmt, other),
                    json!({"kind": "override", "format": fmt}),
                ),
            }
        }
    }
    // file name selects the parser; anything else is an error, not a panic
    let lc = &cat[0];
    // (how unknown, missing or differently-cased extensions are treated is not the property's business: totality only)
    for (ext, fmt, ok) in [("yaml", "yaml", Some(true)), ("yml", "yaml", Some(true)), ("json", "json", Some(true)), ("toml", "toml", Some(true)), ("cfg", "yaml", None), ("", "yaml", None), ("YAML", "yaml", None), ("Json", "json", None), ("json", "yaml", Some(false)), ("toml", "json", Some(false))] {
        rep.add("evaluations", 1);
        let sb = Sandbox::new();
        let p = if ext.is_empty() { sb.path("log4rs") } else { sb.path(&format!("log4rs.{}", ext)) };
        std::fs::write(&p, render(&doc(lc, &sb.dir.to_string_lossy(), "ext-"), fmt)).unwrap();
        match catch_panic(|| log4rs::config::load_config_file(&p, capture::deserializers_with_capture())) {
            Err(pn) => rep.violation(format!("extension:panic:{}", panic_site(&pn)), format!("extension {:?}: {}", ext, pn), json!({"kind": "extension", "ext": ext})),
            Ok(r) => {
                if ok.map_or(false, |ok| r.is_ok() != ok) {
                    rep.violation("extension:wrong-parser-or-acceptance", format!("file extension {:?} with {} content: load_config_file returned Ok={} (expected Ok={:?})", ext, fmt, r.is_ok(), ok), json!({"kind": "extension", "ext": ext, "content": fmt}));
                }
            }
        }
    }
    rep.sample(lc_json(&cat[(ctx.seed as usize * 41 + cat.len() / 3) % cat.len()]));
    if let Some(b) = bases.first() {
        rep.sample(json!({"fault_documents_on": lc_json(b), "injections": injections(&doc(b, "$ROOT", "")).iter().take(6).map(|i| i.what.clone()).collect::<Vec<_>>()}));
    }
    rep.set("exhaustive", !ctx.over_cap());
    rep.assume("the time trigger runs under the driven clock; timestamps / thread ids in default-pattern and JSON output are normalised before comparison");
    rep.assume("root level default: only cross-format agreement with the programmatic default (Debug) is required; console appenders are covered by C18's children");
    rep
}

pub fn replay(case: &Value) -> Result<(), String> {
    match case["kind"].as_str() {
        Some("catalogue") => {
            let idx = case["index"].as_u64().ok_or("bad case")? as usize;
            for tier in [Tier::Quick, Tier::Thorough] {
                let cat = catalogue(tier);
                if let Some(lc) = cat.get(idx) {
                    if lc_json(lc) == case["config"] {
                        return match check_lc(lc) {
                            None => Ok(()),
                            Some((sg, d)) => Err(format!("{}: {}", sg, d)),
                        };
                    }
                }
            }
            Err("configuration not found in the catalogue".into())
        }
        _ => {
            // key-order / fault / extension cases: re-run that part of the check
            let ctx = Ctx { id: "C14".into(), tier: Tier::Quick, seed: 0, start: std::time::Instant::now(), cap: std::time::Duration::from_secs(600), verif_dir: "/nonexistent".into(), exe: std::env::current_exe().unwrap() };
            let rep = run(&ctx);
            match rep.violations().first() {
                Some(v) => Err(format!("{}: {}", v.signature, v.detail)),
                None => Ok(()),
            }
        }
    }
}
