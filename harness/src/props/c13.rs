//! C13 — config building accepts exactly well-formed configs; lossy keeps the valid part.
//! E-ENUM over builder inputs (names, duplicates, dangling references, orders).

use super::routing::{self, ConfSpec, LoggerSpec};
use crate::engine::{capture::CountAppender, catch_panic, panic_site, Ctx, Report, Tier};
use log::{Level, LevelFilter, Log, Record};
use log4rs::config::{runtime::ConfigError, Appender, Config, Logger, Root};
use rayon::prelude::*;
use serde_json::{json, Value};
use std::collections::{BTreeMap, BTreeSet};
use std::sync::{
    atomic::{AtomicUsize, Ordering},
    Arc,
};

/// the property's definition of a well-formed logger name: non-empty, colons only in pairs,
/// none trailing
pub fn well_formed(name: &str) -> bool {
    if name.is_empty() || name.ends_with(':') {
        return false;
    }
    let b = name.as_bytes();
    let mut i = 0;
    while i < b.len() {
        if b[i] == b':' {
            let mut j = i;
            while j < b.len() && b[j] == b':' {
                j += 1;
            }
            if j - i != 2 {
                return false;
            }
            i = j;
        } else {
            i += 1;
        }
    }
    true
}

#[derive(Clone, Debug)]
pub struct Input {
    pub appenders: Vec<String>,
    pub root_refs: Vec<String>,
    pub loggers: Vec<(String, Vec<String>)>,
}

fn input_json(i: &Input) -> Value {
    json!({"appenders": i.appenders, "root_refs": i.root_refs,
           "loggers": i.loggers.iter().map(|(n, r)| json!({"name": n, "refs": r})).collect::<Vec<_>>()})
}

fn input_from_json(v: &Value) -> Option<Input> {
    let strs = |v: &Value| -> Vec<String> {
        v.as_array()
            .map(|a| a.iter().filter_map(|x| x.as_str().map(|s| s.to_owned())).collect())
            .unwrap_or_default()
    };
    Some(Input {
        appenders: strs(&v["appenders"]),
        root_refs: strs(&v["root_refs"]),
        loggers: v["loggers"]
            .as_array()?
            .iter()
            .map(|l| (l["name"].as_str().unwrap_or("").to_owned(), strs(&l["refs"])))
            .collect(),
    })
}

struct Expect {
    appenders: Vec<String>,
    root_refs: Vec<String>,
    loggers: Vec<(String, Vec<String>)>,
    /// per offending name: (mandatory reports, optional additional reports)
    offending: BTreeMap<String, (usize, usize)>,
}

fn reference(i: &Input) -> Expect {
    let mut off: BTreeMap<String, (usize, usize)> = BTreeMap::new();
    let mut seen = BTreeSet::new();
    let mut appenders = vec![];
    for a in &i.appenders {
        if seen.insert(a.clone()) {
            appenders.push(a.clone());
        } else {
            off.entry(a.clone()).or_default().0 += 1;
        }
    }
    let mut root_refs = vec![];
    for r in &i.root_refs {
        if seen.contains(r) {
            root_refs.push(r.clone());
        } else {
            off.entry(r.clone()).or_default().0 += 1;
        }
    }
    let mut names = BTreeSet::new();
    let mut loggers = vec![];
    for (n, refs) in &i.loggers {
        let dup = !names.insert(n.clone());
        if dup || !well_formed(n) {
            off.entry(n.clone()).or_default().0 += 1;
            // dangling references inside a rejected logger may but need not be named
            for r in refs {
                if !seen.contains(r) {
                    off.entry(r.clone()).or_default().1 += 1;
                }
            }
            continue;
        }
        let mut ok = vec![];
        for r in refs {
            if seen.contains(r) {
                ok.push(r.clone());
            } else {
                off.entry(r.clone()).or_default().0 += 1;
            }
        }
        loggers.push((n.clone(), ok));
    }
    Expect { appenders, root_refs, loggers, offending: off }
}

fn err_name(e: &ConfigError) -> Option<String> {
    match e {
        ConfigError::DuplicateAppenderName(n)
        | ConfigError::NonexistentAppender(n)
        | ConfigError::DuplicateLoggerName(n)
        | ConfigError::InvalidLoggerName(n) => Some(n.clone()),
        _ => None,
    }
}

thread_local! {
    /// which mix of singular / plural builder methods the next `builder()` call uses
    static API_VARIANT: std::cell::Cell<usize> = const { std::cell::Cell::new(0) };
}

/// builder histories: 0 = one call per item; 1 = first item alone, the rest through the plural adder;
/// 2 = plural adders only (two calls when there are several items)
fn builder(i: &Input, counters: &[Arc<AtomicUsize>]) -> (log4rs::config::runtime::ConfigBuilder, Root) {
    let variant = API_VARIANT.with(|v| v.get());
    let mk_app = |k: usize| Appender::builder().build(i.appenders[k].clone(), Box::new(CountAppender(counters[k].clone())));
    let mk_log = |k: usize| {
        let (n, refs) = &i.loggers[k];
        let lb = Logger::builder();
        let lb = if variant == 0 { refs.iter().fold(lb, |b, r| b.appender(r.clone())) } else { lb.appenders(refs.iter().cloned()) };
        lb.build(n.clone(), LevelFilter::Trace)
    };
    let mut b = Config::builder();
    let (na, nl) = (i.appenders.len(), i.loggers.len());
    match variant {
        0 => {
            for k in 0..na {
                b = b.appender(mk_app(k));
            }
            for k in 0..nl {
                b = b.logger(mk_log(k));
            }
        }
        1 => {
            if na > 0 {
                b = b.appender(mk_app(0));
                b = b.appenders((1..na).map(mk_app).collect::<Vec<_>>());
            }
            if nl > 0 {
                b = b.logger(mk_log(0));
                b = b.loggers((1..nl).map(mk_log).collect::<Vec<_>>());
            }
        }
        _ => {
            let half = na / 2;
            b = b.appenders((0..half).map(mk_app).collect::<Vec<_>>());
            b = b.appenders((half..na).map(mk_app).collect::<Vec<_>>());
            let half = nl / 2;
            b = b.loggers((0..half).map(mk_log).collect::<Vec<_>>());
            b = b.loggers((half..nl).map(mk_log).collect::<Vec<_>>());
        }
    }
    let rb = Root::builder();
    let rb = if variant == 0 { i.root_refs.iter().fold(rb, |b, r| b.appender(r.clone())) } else { rb.appenders(i.root_refs.iter().cloned()) };
    (b, rb.build(LevelFilter::Trace))
}

/// checks one input under every builder history
pub fn check_all_variants(i: &Input) -> Option<(String, String)> {
    for v in 0..3 {
        API_VARIANT.with(|x| x.set(v));
        if let Some((s, d)) = check(i) {
            API_VARIANT.with(|x| x.set(0));
            return Some((s, format!("[builder history {}] {}", v, d)));
        }
    }
    API_VARIANT.with(|x| x.set(0));
    None
}

fn shape(c: &Config) -> (Vec<String>, Vec<String>, Vec<(String, Vec<String>)>) {
    (
        c.appenders().iter().map(|a| a.name().to_owned()).collect(),
        c.root().appenders().to_vec(),
        c.loggers().iter().map(|l| (l.name().to_owned(), l.appenders().to_vec())).collect(),
    )
}

const PROBES: [&str; 8] = ["", "a", "a::b", "a::b::c", "b", "a:", "::a", "a::"];

/// installs the config in a Logger and logs through it; deliveries must follow the reference router
fn install_and_log(c: Config, i: &Input, counters: &[Arc<AtomicUsize>], exp: &Expect, what: &str) -> Option<(String, String)> {
    let logger = match catch_panic(|| log4rs::Logger::new(c)) {
        Ok(l) => l,
        Err(p) => return Some((format!("{}:panic-install:{}", what, panic_site(&p)), p)),
    };
    let spec = ConfSpec {
        appender_names: exp.appenders.clone(),
        root_level: LevelFilter::Trace,
        root_appenders: exp.root_refs.clone(),
        loggers: exp
            .loggers
            .iter()
            .map(|(n, r)| LoggerSpec { name: n.clone(), level: LevelFilter::Trace, additive: true, appenders: r.clone() })
            .collect(),
    };
    // index of the first occurrence of each appender name (the instance that must be kept)
    let mut first: BTreeMap<&str, usize> = BTreeMap::new();
    for (k, a) in i.appenders.iter().enumerate() {
        first.entry(a.as_str()).or_insert(k);
    }
    for t in PROBES {
        for c in counters {
            c.store(0, Ordering::Relaxed);
        }
        let r = catch_panic(|| {
            logger.log(&Record::builder().target(t).level(Level::Info).args(format_args!("m")).build())
        });
        if let Err(p) = r {
            return Some((format!("{}:panic-log:{}", what, panic_site(&p)), p));
        }
        // names with leading "::" have an empty first component; the router treats it like any other
        let allowed = routing::routes(&spec, t, Level::Info);
        let got: BTreeMap<String, usize> = counters
            .iter()
            .enumerate()
            .filter(|(_, c)| c.load(Ordering::Relaxed) > 0)
            .map(|(k, c)| (format!("{}#{}", i.appenders[k], k), c.load(Ordering::Relaxed)))
            .collect();
        let ok = allowed.iter().any(|r| {
            let want: BTreeMap<String, usize> = r.deliveries.iter().map(|(n, c)| (format!("{}#{}", n, first[n.as_str()]), *c)).collect();
            want == got
        });
        if !ok {
            return Some((
                format!("{}:routing-of-built-config", what),
                format!("target {:?}: deliveries {:?} (name#declaration index), reference allows {:?}", t, got, allowed.iter().map(|r| &r.deliveries).collect::<Vec<_>>()),
            ));
        }
    }
    None
}

pub fn check(i: &Input) -> Option<(String, String)> {
    let exp = reference(i);
    let counters: Vec<Arc<AtomicUsize>> = i.appenders.iter().map(|_| Arc::new(AtomicUsize::new(0))).collect();
    // lossy
    let (b, root) = builder(i, &counters);
    let (cfg, errs) = match catch_panic(|| b.build_lossy(root)) {
        Ok(x) => x,
        Err(p) => return Some((format!("lossy:panic:{}", panic_site(&p)), p)),
    };
    let got = shape(&cfg);
    if got.0 != exp.appenders {
        return Some(("lossy:appenders".into(), format!("kept appenders {:?}, expected {:?}", got.0, exp.appenders)));
    }
    if got.1 != exp.root_refs {
        return Some(("lossy:root-references".into(), format!("root references {:?}, expected {:?}", got.1, exp.root_refs)));
    }
    if got.2 != exp.loggers {
        return Some(("lossy:loggers".into(), format!("kept loggers {:?}, expected {:?}", got.2, exp.loggers)));
    }
    let mut named: BTreeMap<String, usize> = BTreeMap::new();
    for e in errs.errors() {
        match err_name(e) {
            Some(n) => *named.entry(n).or_default() += 1,
            None => return Some(("errors:unnamed".into(), format!("{:?}", e))),
        }
    }
    for (n, (must, may)) in &exp.offending {
        let g = named.get(n).copied().unwrap_or(0);
        if *must > 0 && g == 0 {
            return Some(("errors:offender-not-named".into(), format!("offending item {:?} is not named in {:?}", n, errs.errors())));
        }
        // how often an offender is named is not fixed by the property (naming it once names every
        // offending occurrence of that name); `may` only matters for the innocence test below
        let _ = may;
    }
    for n in named.keys() {
        if !exp.offending.contains_key(n) {
            return Some(("errors:innocent-named".into(), format!("error names {:?}, which offends nothing: {:?}", n, errs.errors())));
        }
    }
    let expect_ok = exp.offending.is_empty();
    if errs.is_empty() != expect_ok {
        return Some(("lossy:error-presence".into(), format!("errors {:?}, expected none = {}", errs.errors(), expect_ok)));
    }
    if let Some(m) = install_and_log(cfg, i, &counters, &exp, "lossy") {
        return Some(m);
    }
    // strict
    let (b, root) = builder(i, &counters);
    match catch_panic(|| b.build(root)) {
        Err(p) => return Some((format!("strict:panic:{}", panic_site(&p)), p)),
        Ok(Ok(cfg)) => {
            if !expect_ok {
                return Some(("strict:accepted-malformed".into(), format!("strict build succeeded although {:?} offend", exp.offending.keys().collect::<Vec<_>>())));
            }
            let got = shape(&cfg);
            if (got.0.clone(), got.1.clone(), got.2.clone()) != (exp.appenders.clone(), exp.root_refs.clone(), exp.loggers.clone()) {
                return Some(("strict:altered".into(), format!("strict build returned {:?}", got)));
            }
            if let Some(m) = install_and_log(cfg, i, &counters, &exp, "strict") {
                return Some(m);
            }
        }
        Ok(Err(errs)) => {
            if expect_ok {
                return Some(("strict:rejected-well-formed".into(), format!("strict build failed with {:?} on a well-formed input", errs.errors())));
            }
            if errs.is_empty() {
                return Some(("strict:empty-error".into(), "Err with no errors".into()));
            }
        }
    }
    None
}

fn seqs(alpha: &[&str], max: usize) -> Vec<Vec<String>> {
    let mut out: Vec<Vec<String>> = vec![vec![]];
    let mut fr: Vec<Vec<String>> = vec![vec![]];
    for _ in 0..max {
        let mut nx = vec![];
        for s in &fr {
            for a in alpha {
                let mut n = s.clone();
                n.push(a.to_string());
                nx.push(n);
            }
        }
        out.extend(nx.iter().cloned());
        fr = nx;
    }
    out
}

fn strings(alpha: &[char], max: usize) -> Vec<String> {
    let mut out = vec![String::new()];
    let mut fr = vec![String::new()];
    for _ in 0..max {
        let mut nx = vec![];
        for s in &fr {
            for c in alpha {
                let mut n = s.clone();
                n.push(*c);
                nx.push(n);
            }
        }
        out.extend(nx.iter().cloned());
        fr = nx;
    }
    out
}

pub fn run(ctx: &Ctx) -> Report {
    let mut rep = Report::new("model_checking");
    rep.set(
        "rule",
        "E-ENUM: (a) every logger name over {a,b,:} up to the length bound, alone and after a valid logger, through build/build_lossy; \
         every input through three builder histories (one call per item / first item alone then the plural adder / plural adders only; 3-logger inputs rotate through them); \
         (b) every builder input: appender sequences over {x,y}, logger sequences over {a,a::b,'a:','',::a} with repetition, reference lists \
         over {x,y,z(dangling)} on root and loggers; (c) appenders and loggers both named from {a,x}, references over {a,x,z}; compared with the reference validity/lossy model, every returned Config installed and \
         logged through. Non-trivial = input with at least one offending item",
    );
    // (a) names
    let max_len = ctx.tier.pick(7, 9);
    let names = strings(&['a', 'b', ':'], max_len);
    let inputs_a: Vec<Input> = names
        .iter()
        .flat_map(|n| {
            [
                Input { appenders: vec!["x".into()], root_refs: vec!["x".into()], loggers: vec![(n.clone(), vec!["x".into()])] },
                Input { appenders: vec!["x".into()], root_refs: vec![], loggers: vec![("a".into(), vec![]), (n.clone(), vec!["x".into()])] },
            ]
        })
        .collect();
    // (b) builder inputs
    let app_seqs = seqs(&["x", "y"], 3);
    let lnames = ["a", "a::b", "a:", "", "::a"];
    let refl: Vec<Vec<String>> = match ctx.tier {
        Tier::Quick => {
            let mut v = seqs(&["x", "y", "z"], 1);
            for l in [["x", "z"], ["z", "x"], ["z", "z"], ["x", "x"]] {
                v.push(l.iter().map(|s| s.to_string()).collect());
            }
            v
        }
        Tier::Thorough => seqs(&["x", "y", "z"], 2),
    };
    let root_refl = match ctx.tier {
        Tier::Quick => refl.clone(),
        Tier::Thorough => seqs(&["x", "y", "z"], 2),
    };
    let lseq_len = 3;
    let mut logger_seqs: Vec<Vec<(String, Vec<String>)>> = vec![vec![]];
    let mut fr: Vec<Vec<(String, Vec<String>)>> = vec![vec![]];
    for _ in 0..lseq_len {
        let mut nx = vec![];
        for s in &fr {
            for n in lnames {
                for r in &refl {
                    let mut k = s.clone();
                    k.push((n.to_string(), r.clone()));
                    nx.push(k);
                }
            }
        }
        logger_seqs.extend(nx.iter().cloned());
        fr = nx;
    }
    let total_b = app_seqs.len() as u64 * root_refl.len() as u64 * logger_seqs.len() as u64;
    rep.set(
        "domains",
        json!([
            format!("(a) {} names over {{a,b,:}} up to length {} x 2 contexts", names.len(), max_len),
            format!("(b) {} appender sequences x {} root reference lists x {} logger sequences (<= {} loggers, {} reference lists each) = {}",
                app_seqs.len(), root_refl.len(), logger_seqs.len(), lseq_len, refl.len(), total_b),
        ]),
    );
    let bad_a: Vec<(usize, (String, String))> = inputs_a.par_iter().enumerate().filter_map(|(k, i)| check_all_variants(i).map(|m| (k, m))).collect();
    rep.add("evaluations", inputs_a.len() as u64);
    rep.add("distinct_nontrivial", inputs_a.iter().filter(|i| !reference(i).offending.is_empty()).count() as u64);
    for (k, (s, d)) in bad_a {
        rep.violation(s, d, input_json(&inputs_a[k]));
    }
    rep.sample(input_json(&inputs_a[(ctx.seed as usize + 77) % inputs_a.len()]));

    let combos: Vec<(usize, usize)> = (0..app_seqs.len()).flat_map(|a| (0..root_refl.len()).map(move |r| (a, r))).collect();
    let results: Vec<(u64, u64, Vec<(Input, (String, String))>)> = combos
        .par_iter()
        .map(|(a, r)| {
            let mut n = 0;
            let mut nt = 0;
            let mut bad = vec![];
            for ls in &logger_seqs {
                if ctx.over_cap() {
                    break;
                }
                let inp = Input { appenders: app_seqs[*a].clone(), root_refs: root_refl[*r].clone(), loggers: ls.clone() };
                n += 1;
                if !reference(&inp).offending.is_empty() {
                    nt += 1;
                }
                let verdict = if inp.loggers.len() <= 2 {
                    check_all_variants(&inp)
                } else {
                    API_VARIANT.with(|x| x.set((n as usize) % 3));
                    let r = check(&inp).map(|(s, d)| (s, format!("[builder history {}] {}", n % 3, d)));
                    API_VARIANT.with(|x| x.set(0));
                    r
                };
                if let Some(m) = verdict {
                    if bad.len() < 50 {
                        bad.push((inp, m));
                    }
                }
            }
            (n, nt, bad)
        })
        .collect();
    let mut done = 0;
    for (n, nt, bad) in results {
        done += n;
        rep.add("evaluations", n);
        rep.add("distinct_nontrivial", nt);
        for (inp, (s, d)) in bad {
            rep.violation(s, d, input_json(&inp));
        }
    }
    // (c) one name pool for appenders and loggers: the two namespaces are independent, so a logger may
    // be called like an appender, and a reference is valid only if an *appender* of that name exists
    let pool = ["a", "x"];
    let app_c = seqs(&pool, 2);
    let mut ref_c = seqs(&["a", "x", "z"], 1);
    ref_c.push(vec!["a".into(), "x".into()]);
    ref_c.push(vec!["x".into(), "a".into()]);
    let mut lseq_c: Vec<Vec<(String, Vec<String>)>> = vec![vec![]];
    let mut fr_c: Vec<Vec<(String, Vec<String>)>> = vec![vec![]];
    for _ in 0..2 {
        let mut nx = vec![];
        for sq in &fr_c {
            for n in pool {
                for r in &ref_c {
                    let mut k = sq.clone();
                    k.push((n.to_string(), r.clone()));
                    nx.push(k);
                }
            }
        }
        lseq_c.extend(nx.iter().cloned());
        fr_c = nx;
    }
    let inputs_c: Vec<Input> = app_c
        .iter()
        .flat_map(|a| ref_c.iter().map(move |r| (a, r)))
        .flat_map(|(a, r)| lseq_c.iter().map(move |l| Input { appenders: a.clone(), root_refs: r.clone(), loggers: l.clone() }))
        .collect();
    let bad_c: Vec<(usize, (String, String))> = inputs_c.par_iter().enumerate().filter_map(|(k, i)| check_all_variants(i).map(|m| (k, m))).collect();
    rep.add("evaluations", inputs_c.len() as u64);
    rep.add("distinct_nontrivial", inputs_c.iter().filter(|i| !reference(i).offending.is_empty()).count() as u64);
    rep.set("shared_name_pool_inputs", inputs_c.len() as u64);
    for (k, (sg, d)) in bad_c.into_iter().take(50) {
        rep.violation(sg, format!("[appenders and loggers named from one pool] {}", d), input_json(&inputs_c[k]));
    }
    rep.set("exhaustive", done == total_b);
    rep.sample(input_json(&Input {
        appenders: app_seqs[app_seqs.len() - 2].clone(),
        root_refs: root_refl[5].clone(),
        loggers: logger_seqs[logger_seqs.len() / 3 + (ctx.seed as usize % 97)].clone(),
    }));
    rep.assume("well-formedness is read literally from the property: non-empty, every maximal run of ':' has length 2, no trailing ':' (so '::a' is well-formed)");
    rep.assume("a dangling reference inside a logger that is itself rejected may but need not be named");
    rep
}

pub fn replay(case: &Value) -> Result<(), String> {
    let i = input_from_json(case).ok_or("bad case")?;
    match check_all_variants(&i) {
        None => Ok(()),
        Some((s, d)) => Err(format!("{}: {}", s, d)),
    }
}
