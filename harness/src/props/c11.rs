//! C11 — any pattern string is safe: no panic, errors surface as {ERROR: …} markers.
//! E-ENUM: all strings over the syntax alphabet up to a length bound (in worker processes, so
//! that an abort is a finding and not a lost run), single/double edits of documented patterns,
//! definite-error classes, every single-directive strftime string, absurd widths.

use crate::engine::{capture::Sink, catch_panic, panic_site, proc::run_child, Ctx, Report, Tier};
use log::{Level, Record};
use log4rs::encode::{pattern::PatternEncoder, Encode};
use rayon::prelude::*;
use serde_json::{json, Value};
use std::collections::BTreeMap;

pub const SIGMA: [char; 19] = ['{', '}', '(', ')', '\\', ':', '<', '>', '.', '0', '9', 'm', 'd', 'h', 'X', 'x', '%', 'é', ' '];

#[derive(Debug)]
pub enum Outcome {
    Ok(Vec<u8>),
    Err(String, Vec<u8>),
    PanicNew(String),
    PanicEncode(String),
}

pub fn try_pattern(p: &str, encode: bool) -> Outcome {
    let enc = match catch_panic(|| PatternEncoder::new(p)) {
        Ok(e) => e,
        Err(m) => return Outcome::PanicNew(m),
    };
    if !encode {
        return Outcome::Ok(vec![]);
    }
    let mut sink = Sink::new(None);
    let r = catch_panic(|| {
        enc.encode(
            &mut sink,
            &Record::builder().level(Level::Info).target("tgt").module_path(Some("mp")).file(None).line(Some(7)).args(format_args!("m\u{e9}s\u{20ac}g")).build(),
        )
    });
    match r {
        Err(m) => Outcome::PanicEncode(m),
        Ok(Err(e)) => Outcome::Err(e.to_string(), sink.buf),
        Ok(Ok(())) => Outcome::Ok(sink.buf),
    }
}

/// (signature, detail) if the pattern is unsafe
pub fn safety(p: &str, encode: bool) -> Option<(String, String)> {
    match try_pattern(p, encode) {
        Outcome::PanicNew(m) => Some((format!("panic-new:{}", panic_site(&m)), format!("PatternEncoder::new({:?}) panicked: {}", p, m))),
        Outcome::PanicEncode(m) => Some((format!("panic-encode:{}", panic_site(&m)), format!("encode with pattern {:?} panicked: {}", p, m))),
        _ => None,
    }
}

fn nth_string(mut i: u64, len: usize) -> String {
    let mut s = String::new();
    for _ in 0..len {
        s.push(SIGMA[(i % SIGMA.len() as u64) as usize]);
        i /= SIGMA.len() as u64;
    }
    s
}

/// child: enumerates every string of length <= maxlen whose index is ≡ part (mod nparts)
pub fn child_sweep(args: &[String]) -> i32 {
    let part: u64 = args[0].parse().unwrap();
    let nparts: u64 = args[1].parse().unwrap();
    let maxlen: usize = args[2].parse().unwrap();
    let trace = std::env::var("C11_TRACE").is_ok();
    let mut n = 0u64;
    let mut found: BTreeMap<String, (String, String, u64)> = BTreeMap::new();
    let mut outcomes: BTreeMap<&'static str, u64> = BTreeMap::new();
    for len in 0..=maxlen {
        let total = (SIGMA.len() as u64).pow(len as u32);
        let mut i = part;
        while i < total {
            let p = nth_string(i, len);
            if trace {
                eprintln!("T {}", p);
            }
            n += 1;
            // prefix law: "x{l}" followed by anything renders "xINFO" first
            let with_prefix = format!("x{{l}}{}", p);
            for (pat, prefix) in [(p.as_str(), ""), (with_prefix.as_str(), "xINFO")] {
                match try_pattern(pat, true) {
                    Outcome::PanicNew(m) => {
                        let e = found.entry(format!("panic-new:{}", panic_site(&m))).or_insert((pat.to_owned(), m, 0));
                        e.2 += 1;
                    }
                    Outcome::PanicEncode(m) => {
                        let e = found.entry(format!("panic-encode:{}", panic_site(&m))).or_insert((pat.to_owned(), m, 0));
                        e.2 += 1;
                    }
                    Outcome::Ok(out) | Outcome::Err(_, out) => {
                        let marker = out.windows(7).any(|w| w == b"{ERROR:");
                        *outcomes.entry(if marker { "error-marker" } else { "clean" }).or_default() += 1;
                        if !out.starts_with(prefix.as_bytes()) {
                            let e = found
                                .entry("prefix-not-rendered".into())
                                .or_insert((pat.to_owned(), format!("output {:?} does not start with {:?}", String::from_utf8_lossy(&out), prefix), 0));
                            e.2 += 1;
                        }
                    }
                }
            }
            i += nparts;
        }
    }
    for (sig, (pat, detail, count)) in found {
        println!("{}", json!({"kind": "violation", "sig": sig, "detail": detail, "case": {"pattern": pat}, "count": count}));
    }
    println!("{}", json!({"kind": "stat", "strings": n, "outcomes": outcomes}));
    0
}


/// every formatter alias, as a stand-alone pattern
const FORMATTERS: [&str; 34] = [
    "{d}", "{date}", "{d(%H:%M)(utc)}", "{f}", "{file}", "{h({l})}", "{highlight({m})}", "{D({l})}", "{debug({l})}", "{R({l})}", "{release({l})}",
    "{l}", "{level}", "{L}", "{line}", "{m}", "{message}", "{M}", "{module}", "{P}", "{pid}", "{i}", "{tid}", "{n}", "{t}", "{target}",
    "{T}", "{thread}", "{I}", "{thread_id}", "{X(k)}", "{mdc(k)(dflt)}", "{({l}):>7}", "{bogus}",
];


/// worker: nesting depth.  Each depth runs on a thread with a 2 MiB stack (the default of spawned threads);
/// a stack overflow kills the process, so the depth being tried is announced on stderr first.
pub fn child_deep() -> i32 {
    for depth in [16usize, 64, 256, 1000, 3000, 10_000, 30_000, 100_000] {
        for (shape, pat) in [
            ("unclosed", "{(".repeat(depth)),
            ("well-formed", format!("{}{{m}}{}", "{(".repeat(depth), ")}".repeat(depth))),
            ("highlight", format!("{}x{}", "{h(".repeat(depth), ")}".repeat(depth))),
        ] {
            eprintln!("T {} {}", depth, shape);
            let r = std::thread::Builder::new().stack_size(2 << 20).spawn(move || try_pattern(&pat, true)).unwrap().join();
            match r {
                Ok(Outcome::PanicNew(m)) | Ok(Outcome::PanicEncode(m)) => println!("{}", json!({"kind": "violation", "sig": format!("deep-nesting:panic:{}", panic_site(&m)), "detail": format!("{} groups nested {} deep: {}", shape, depth, m), "case": {"depth": depth, "shape": shape}})),
                Ok(Outcome::Ok(out)) if shape == "well-formed" && out != "m\u{e9}s\u{20ac}g".as_bytes() => println!("{}", json!({"kind": "violation", "sig": "deep-nesting:wrong-output", "detail": format!("depth {}: {:?}", depth, String::from_utf8_lossy(&out)), "case": {"depth": depth, "shape": shape}})),
                Ok(_) => {}
                Err(_) => println!("{}", json!({"kind": "violation", "sig": "deep-nesting:panic-escaped", "detail": format!("{} depth {}", shape, depth), "case": {"depth": depth, "shape": shape}})),
            }
        }
    }
    println!("{}", json!({"kind": "stat", "max_depth": 100_000}));
    0
}

/// child: every formatter is encoded as the very first thing a fresh thread does (lazily built
/// thread-locals: first use) and once more on the same thread (later use); outputs must agree.
/// Encoding from a thread-local *destructor* during thread teardown is deliberately not probed: it is
/// outside the property's quantifier and the unchanged tree panics there for {d} (chrono's zone cache).
pub fn child_exit() -> i32 {
    let mut combos = 0u64;
    for f in FORMATTERS {
        eprintln!("T {} fresh-thread", f);
        combos += 1;
        let pat = f.to_string();
        let r = std::thread::Builder::new().name("worker".into()).spawn(move || (try_pattern(&pat, true), try_pattern(&pat, true))).unwrap().join();
        match r {
            Err(_) => println!("{}", json!({"kind": "violation", "sig": "fresh-thread:panic-escaped-the-thread", "detail": f, "case": {"pattern": f}})),
            Ok((a, b)) => {
                for (which, o) in [("first", &a), ("second", &b)] {
                    if let Outcome::PanicNew(m) | Outcome::PanicEncode(m) = o {
                        println!("{}", json!({"kind": "violation", "sig": format!("fresh-thread:panic:{}", panic_site(m)), "detail": format!("pattern {:?}, {} encode on a fresh thread: {}", f, which, m), "case": {"pattern": f}}));
                    }
                }
                if let (Outcome::Ok(x), Outcome::Ok(y)) = (&a, &b) {
                    if x != y && !f.starts_with("{d") {
                        println!("{}", json!({"kind": "violation", "sig": "fresh-thread:first-and-second-encode-differ", "detail": format!("pattern {:?}: {:?} then {:?}", f, String::from_utf8_lossy(x), String::from_utf8_lossy(y)), "case": {"pattern": f}}));
                    }
                }
            }
        }
    }
    println!("{}", json!({"kind": "stat", "combos": combos}));
    0
}

const DOC_PATTERNS: [&str; 12] = [
    "{d} {l} {t} - {m}{n}",
    "{d(%Y-%m-%d %H:%M:%S)}",
    "{d(%Y-%m-%d %H:%M:%S %Z)(utc)}",
    "{h(the level is {l})}",
    "{X(user_id)}",
    "{X(nonexistent_key)(no mapping)}",
    "{({l} {m})}",
    "{m:>10.15}",
    "{({l} {m}):15.15}",
    "{D({l})}{R({m})}",
    "{f}:{L} {M} {T} {I} {P} {i}",
    "\\{ {{ }} (( )) \\\\ {highlight({level:<5})}",
];

fn edits(p: &str) -> Vec<String> {
    let cs: Vec<char> = p.chars().collect();
    let mut out = vec![];
    for i in 0..=cs.len() {
        if i < cs.len() {
            let mut d = cs.clone();
            d.remove(i);
            out.push(d.iter().collect());
            for s in SIGMA {
                let mut d = cs.clone();
                d[i] = s;
                out.push(d.iter().collect());
            }
        }
        for s in SIGMA {
            let mut d = cs.clone();
            d.insert(i, s);
            out.push(d.iter().collect());
        }
    }
    out
}

/// patterns that are definitely malformed: the output must show an {ERROR marker or encode must fail
fn definite_errors() -> Vec<(String, &'static str)> {
    let mut v: Vec<(String, &'static str)> = vec![];
    let known = ["d", "date", "f", "file", "h", "highlight", "D", "debug", "R", "release", "l", "level", "L", "line", "m", "message", "M", "module", "P", "pid", "i", "tid", "n", "t", "target", "T", "thread", "I", "thread_id", "X", "mdc"];
    let letters: Vec<char> = ('a'..='z').chain('A'..='Z').collect();
    for a in &letters {
        let n = a.to_string();
        if !known.contains(&n.as_str()) {
            v.push((format!("{{{}}}", n), "unknown-formatter"));
        }
        for b in &letters {
            let n = format!("{}{}", a, b);
            if !known.contains(&n.as_str()) {
                v.push((format!("{{{}}}", n), "unknown-formatter"));
            }
        }
    }
    for n in ["é", "mm", "dates", "Level", "thread_", "m1", "thread_idx"] {
        v.push((format!("{{{}}}", n), "unknown-formatter"));
    }
    for n in ["l", "level", "m", "message", "M", "module", "f", "file", "L", "line", "t", "target", "T", "thread", "I", "thread_id", "P", "pid", "i", "tid", "n"] {
        v.push((format!("{{{}(x)}}", n), "arity"));
        v.push((format!("{{{}()}}", n), "arity"));
    }
    for n in ["h", "highlight", "D", "debug", "R", "release", ""] {
        if !n.is_empty() {
            v.push((format!("{{{}}}", n), "arity"));
        }
        v.push((format!("{{{}(a)(b)}}", n), "arity"));
        v.push((format!("{{{}(a)(b)(c)}}", n), "arity"));
    }
    for n in ["d", "date"] {
        v.push((format!("{{{}(%Y)(utc)(x)}}", n), "arity"));
        // not a zone under any spelling leniency (case, white space and aliases such as GMT are the library's choice)
        // (the last four start like a zone and go on: the whole argument is the zone name)
        for z in ["mars", "utcx", "", "{m}", "12:99", "no/such_zone", "utc\\(junk", "utc{m}", "local}}x", "utc\\q"] {
            v.push((format!("{{{}(%Y)({})}}", n, z), "timezone"));
        }
    }
    for n in ["X", "mdc"] {
        v.push((format!("{{{}}}", n), "arity"));
        v.push((format!("{{{}()}}", n), "arity"));
        v.push((format!("{{{}(a)(b)(c)}}", n), "arity"));
        v.push((format!("{{{}({{m}})}}", n), "arity"));
    }
    for p in ["{", "{m", "{m:", "{m:>", "{m:5", "{m:5.", "{m:5.5", "{(x", "{h(x}", "{h(x", "}", "(", ")", "\\", "\\x", "{m}}", "{m} )", "{m:x}", "{m:5.5.5}", "{m :5}", "{ m}", "{m(}", "{X(k}"] {
        v.push((p.to_string(), "syntax"));
    }
    v
}

fn printable() -> Vec<char> {
    (0x20u8..0x7f).map(|b| b as char).chain(['é', '€']).collect()
}

pub fn run(ctx: &Ctx) -> Report {
    let mut rep = Report::new("model_checking");
    rep.set(
        "rule",
        "E-ENUM: (i) every string over the 19-symbol syntax alphabet up to the length bound, alone and after the prefix 'x{l}', constructed and encoded \
         under catch_unwind in worker processes; (ii) every single edit (thorough: double edits of the shorter ones) of 12 documented patterns; \
         (iii) definite-error classes must show an {ERROR marker or return Err, with the preceding text rendered; (iv) every single-directive strftime \
         format; (v) widths of 1..25 digits; (vi) every formatter as the first and second encode of a fresh thread; (vii) groups nested 16 ... 100 000 deep (unclosed, well-formed, highlight) on a 2 MiB stack. Non-trivial = string containing at least one syntax character",
    );
    let maxlen = ctx.tier.pick(6usize, 7usize);
    let nparts = 16u64;
    // (i)
    let outs: Vec<_> = (0..nparts)
        .into_par_iter()
        .map(|part| {
            let args = [part.to_string(), nparts.to_string(), maxlen.to_string()];
            let o = run_child(&ctx.exe, "c11sweep", &args, &[], ctx.cap);
            (part, args, o)
        })
        .collect();
    let mut strings = 0u64;
    let mut outcome_totals: BTreeMap<String, u64> = BTreeMap::new();
    for (part, args, o) in outs {
        let lines = o.json_lines();
        let stat = lines.iter().find(|v| v["kind"] == "stat");
        for v in &lines {
            if v["kind"] == "violation" {
                rep.violation(v["sig"].as_str().unwrap_or("?"), v["detail"].as_str().unwrap_or(""), v["case"].clone());
            }
        }
        match stat {
            Some(s) => {
                strings += s["strings"].as_u64().unwrap_or(0);
                if let Some(m) = s["outcomes"].as_object() {
                    for (k, v) in m {
                        *outcome_totals.entry(k.clone()).or_default() += v.as_u64().unwrap_or(0);
                    }
                }
            }
            None => {
                if o.timed_out {
                    rep.set("exhaustive", false);
                    rep.set("cap_hit", format!("partition {} stopped by the wall-clock cap", part));
                    continue;
                }
                // the worker died: find the pattern it was working on
                let t = run_child(&ctx.exe, "c11sweep", &args, &[("C11_TRACE".into(), "1".into())], ctx.cap);
                let last = String::from_utf8_lossy(&t.stderr).lines().filter_map(|l| l.strip_prefix("T ").map(|s| s.to_owned())).last().unwrap_or_default();
                rep.violation(
                    "abort",
                    format!("worker process died (status {:?}) while handling pattern {:?}: {}", o.status, last, String::from_utf8_lossy(&o.stderr).lines().last().unwrap_or("")),
                    json!({"pattern": last}),
                );
            }
        }
    }
    rep.add("evaluations", strings * 2);
    rep.set("strings_over_sigma", strings);
    rep.set("max_len", maxlen as u64);
    rep.set("distinct_outcomes", json!(outcome_totals));
    rep.add("distinct_nontrivial", strings.saturating_sub(7u64.pow(maxlen as u32)));
    // (ii) edits
    let mut ed: Vec<String> = DOC_PATTERNS.iter().flat_map(|p| edits(p)).collect();
    if ctx.tier == Tier::Thorough {
        let two: Vec<String> = DOC_PATTERNS.iter().filter(|p| p.len() <= 16).flat_map(|p| edits(p)).flat_map(|p| edits(&p)).collect();
        ed.extend(two);
    }
    ed.sort();
    ed.dedup();
    let bad: Vec<(String, (String, String))> = ed.par_iter().filter_map(|p| safety(p, true).map(|m| (p.clone(), m))).collect();
    rep.add("evaluations", ed.len() as u64);
    rep.add("distinct_nontrivial", ed.len() as u64);
    rep.set("edited_patterns", ed.len() as u64);
    for (p, (s, d)) in bad {
        rep.violation(s, d, json!({"pattern": p}));
    }
    // (iii) definite errors
    let de = definite_errors();
    for (p, class) in &de {
        for prefix in ["", "ab{l} "] {
            let pat = format!("{}{}", prefix, p);
            rep.add("evaluations", 1);
            match try_pattern(&pat, true) {
                Outcome::PanicNew(m) | Outcome::PanicEncode(m) => rep.violation(format!("panic:{}", panic_site(&m)), format!("{:?}: {}", pat, m), json!({"pattern": pat})),
                Outcome::Err(..) => {}
                Outcome::Ok(out) => {
                    let s = String::from_utf8_lossy(&out).into_owned();
                    if !s.contains("{ERROR:") {
                        rep.violation(format!("error-not-surfaced:{}", class), format!("pattern {:?} ({} error) rendered {:?} without an {{ERROR: marker", pat, class, s), json!({"pattern": pat}));
                    } else if !prefix.is_empty() && !s.starts_with("abINFO ") {
                        rep.violation("prefix-not-rendered", format!("pattern {:?} rendered {:?}", pat, s), json!({"pattern": pat}));
                    }
                }
            }
        }
    }
    // an error inside a group argument: the content of the group before it still renders
    for c in ["h", "highlight", "", "D"] {
        for (bad, _) in de.iter().filter(|(p, class)| *class != "syntax" && p.len() < 12).take(40).chain(de.iter().filter(|(_, class)| *class == "timezone")) {
            for depth in 1..=2 {
                let inner = format!("pre{{l}} {}", bad);
                let pat = if depth == 1 { format!("{{{}({})}}", c, inner) } else { format!("{{{}(o{{t}}{{({})}})}}", c, inner) };
                rep.add("evaluations", 1);
                let want = if depth == 1 { "preINFO " } else { "otgtpreINFO " };
                match try_pattern(&pat, true) {
                    Outcome::PanicNew(m) | Outcome::PanicEncode(m) => rep.violation(format!("panic:{}", panic_site(&m)), format!("{:?}: {}", pat, m), json!({"pattern": pat})),
                    Outcome::Err(..) => {}
                    Outcome::Ok(out) => {
                        let s = String::from_utf8_lossy(&out).into_owned();
                        if !s.contains("{ERROR:") {
                            rep.violation("error-not-surfaced:nested", format!("pattern {:?} rendered {:?} without an {{ERROR: marker", pat, s), json!({"pattern": pat}));
                        } else if !s.starts_with(want) {
                            rep.violation("prefix-not-rendered:inside-group", format!("pattern {:?} rendered {:?}; the content of the group before the error ({:?}) is missing", pat, s, want), json!({"pattern": pat}));
                        }
                    }
                }
            }
        }
    }
    rep.set("definite_error_patterns", de.len() as u64);
    // (iv) strftime directives
    let mut n4 = 0;
    for c in printable() {
        for (fmt, tail) in [(format!("%{}", c), ""), (format!("%-{}", c), ""), (format!("%{}%", c), ""), (format!("x%{}", c), ""), (format!("%.{}", c), ""), (format!("%:{}", c), ""), (format!("%3{}", c), ""), (format!("%#{}", c), ""), (format!("%_{}", c), ""), (format!("%0{}", c), "")] {
            let _ = tail;
            if fmt.contains(['(', ')', '{', '}', '\\']) {
                continue;
            }
            for tz in ["", "(utc)", "(local)"] {
                let pat = format!("<{{d({}){}}}>", fmt, tz);
                n4 += 1;
                let invalid = chrono::format::StrftimeItems::new(&fmt).any(|i| matches!(i, chrono::format::Item::Error));
                match try_pattern(&pat, true) {
                    Outcome::PanicNew(m) => rep.violation(format!("panic-new:{}", panic_site(&m)), format!("{:?}: {}", pat, m), json!({"pattern": pat})),
                    Outcome::PanicEncode(m) => rep.violation(format!("panic-encode:date-format:{}", panic_site(&m)), format!("encode with {:?} panicked: {}", pat, m), json!({"pattern": pat})),
                    Outcome::Err(..) => {}
                    Outcome::Ok(out) => {
                        let s = String::from_utf8_lossy(&out).into_owned();
                        if invalid && !s.contains("{ERROR:") {
                            rep.violation("error-not-surfaced:date-format", format!("invalid date format {:?} rendered {:?} without marker or error", pat, s), json!({"pattern": pat}));
                        }
                        if !s.starts_with('<') {
                            rep.violation("prefix-not-rendered", format!("{:?} rendered {:?}", pat, s), json!({"pattern": pat}));
                        }
                    }
                }
            }
        }
    }
    for fmt in ["%", "%%%", "abc%", "%Y%", "% ", "%é"] {
        for tz in ["", "(utc)"] {
            let pat = format!("<{{d({}){}}}>", fmt, tz);
            n4 += 1;
            match try_pattern(&pat, true) {
                Outcome::PanicNew(m) => rep.violation(format!("panic-new:{}", panic_site(&m)), format!("{:?}: {}", pat, m), json!({"pattern": pat})),
                Outcome::PanicEncode(m) => rep.violation(format!("panic-encode:date-format:{}", panic_site(&m)), format!("encode with {:?} panicked: {}", pat, m), json!({"pattern": pat})),
                Outcome::Err(..) => {}
                Outcome::Ok(out) => {
                    let s = String::from_utf8_lossy(&out).into_owned();
                    if !s.contains("{ERROR:") {
                        rep.violation("error-not-surfaced:date-format", format!("invalid date format {:?} rendered {:?}", pat, s), json!({"pattern": pat}));
                    }
                }
            }
        }
    }
    rep.add("evaluations", n4);
    rep.set("strftime_patterns", n4);
    // (v) absurd widths
    let mut n5 = 0;
    for k in 1..=25usize {
        for digits in ["9".repeat(k), format!("1{}", "0".repeat(k - 1)), format!("{}7", "0".repeat(k - 1))] {
            for pat in [format!("{{m:{}}}", digits), format!("{{m:.{}}}", digits), format!("{{m:>{}.{}}}", digits, digits), format!("{{({{m:{}}}):.3}}", digits)] {
                n5 += 1;
                let small = digits.parse::<u64>().map_or(false, |v| v <= 64);
                if let Some((s, d)) = safety(&pat, small) {
                    rep.violation(format!("width:{}", s), d, json!({"pattern": pat}));
                }
            }
        }
    }
    // every value around the limits of the integer types (with and without leading zeros)
    for centre in [u32::MAX as u128, i64::MAX as u128, u64::MAX as u128] {
        for v in centre.saturating_sub(3)..=centre + 6 {
            for digits in [v.to_string(), format!("00{}", v)] {
                for pat in [format!("{{m:{}}}", digits), format!("{{m:.{}}}", digits), format!("x{{m:<{}.{}}}y", digits, digits)] {
                    n5 += 1;
                    if let Some((s, d)) = safety(&pat, false) {
                        rep.violation(format!("width:{}", s), d, json!({"pattern": pat}));
                    }
                }
            }
        }
    }
    rep.add("evaluations", n5);
    rep.set("width_patterns", n5);
    // (vi) thread life cycle: first and later use on a fresh thread, per formatter
    {
        let o = run_child(&ctx.exe, "c11exit", &[], &[], ctx.cap);
        let lines = o.json_lines();
        for v in &lines {
            if v["kind"] == "violation" {
                if v["sig"] == "MACHINERY" {
                    eprintln!("MACHINERY FAILURE: c11exit: {}", v["detail"]);
                    std::process::exit(2);
                }
                rep.violation(v["sig"].as_str().unwrap_or("?"), v["detail"].as_str().unwrap_or(""), v["case"].clone());
            }
        }
        match lines.iter().find(|v| v["kind"] == "stat") {
            Some(st) => {
                rep.add("evaluations", st["combos"].as_u64().unwrap_or(0) * 2);
                rep.set("fresh_thread_formatters", st["combos"].as_u64().unwrap_or(0));
            }
            None => {
                let last = String::from_utf8_lossy(&o.stderr).lines().filter_map(|l| l.strip_prefix("T ").map(|s| s.to_owned())).last().unwrap_or_default();
                let mut it = last.splitn(2, ' ');
                let pat = it.next().unwrap_or("").to_owned();
                let order = it.next().unwrap_or("").to_owned();
                rep.violation(
                    "fresh-thread:abort",
                    format!("the process died (status {:?}) encoding pattern {:?} on a fresh thread ({}): {}", o.status, pat, order, String::from_utf8_lossy(&o.stderr).lines().last().unwrap_or("")),
                    json!({"pattern": pat, "thread_exit": order}),
                );
            }
        }
    }
    // (vii) nesting depth up to 100 000 on a 2 MiB stack
    {
        let o = run_child(&ctx.exe, "c11deep", &[], &[], ctx.cap);
        let lines = o.json_lines();
        for v in &lines {
            if v["kind"] == "violation" {
                rep.violation(v["sig"].as_str().unwrap_or("?"), v["detail"].as_str().unwrap_or(""), v["case"].clone());
            }
        }
        rep.add("evaluations", 24);
        if !lines.iter().any(|v| v["kind"] == "stat") {
            let last = String::from_utf8_lossy(&o.stderr).lines().filter_map(|l| l.strip_prefix("T ").map(|s| s.to_owned())).last().unwrap_or_default();
            let mut it = last.splitn(2, ' ');
            let depth: u64 = it.next().and_then(|d| d.parse().ok()).unwrap_or(0);
            let shape = it.next().unwrap_or("").to_owned();
            rep.violation(
                "deep-nesting:stack-overflow",
                format!("the process died (status {:?}) compiling or encoding {} groups nested {} deep on a 2 MiB stack: {}", o.status, shape, depth, String::from_utf8_lossy(&o.stderr).lines().last().unwrap_or("")),
                json!({"depth": depth, "shape": shape}),
            );
            rep.set("deepest_nesting_survived_below", depth);
        }
    }
    rep.sample(json!({"pattern": nth_string(ctx.seed.wrapping_mul(7919) % 19u64.pow(5), 5)}));
    rep.sample(json!({"pattern": ed[(ctx.seed as usize * 13 + ed.len() / 2) % ed.len()]}));
    rep.sample(json!({"pattern": "<{d(%Q)(utc)}>"}));
    rep.assume("encoding is exercised only for patterns whose explicit widths are <= 64 (the property's sanity bound); chrono's StrftimeItems decides which date formats are invalid");
    rep
}

pub fn replay(case: &Value) -> Result<(), String> {
    let p = case["pattern"].as_str().ok_or("bad case")?;
    let widths_small = {
        // all digit runs <= 64
        let mut ok = true;
        let mut cur = String::new();
        for c in p.chars().chain(std::iter::once(' ')) {
            if c.is_ascii_digit() {
                cur.push(c);
            } else {
                if !cur.is_empty() && cur.parse::<u64>().map_or(true, |v| v > 64) {
                    ok = false;
                }
                cur.clear();
            }
        }
        ok
    };
    match safety(p, widths_small) {
        Some((s, d)) => Err(format!("{}: {}", s, d)),
        None => Ok(()),
    }
}
