//! C20 — size and interval literals parse exactly; bad or overflowing ones are rejected.
//! E-ENUM through serde deserialisation (YAML / JSON / TOML) of the public config types against
//! an arbitrary-precision (u128) reference.

use crate::engine::{catch_panic, panic_site, Ctx, Report, Tier};
use log4rs::append::rolling_file::policy::compound::trigger::{size::SizeTriggerConfig, time::TimeTriggerInterval};
use rayon::prelude::*;
use serde_json::{json, Value};

#[derive(Clone, Copy, Debug, PartialEq, Eq)]
pub enum Kind {
    Size,
    Interval,
    Refresh,
}

#[derive(Clone, Copy, Debug, PartialEq, Eq)]
pub enum Form {
    YamlPlain,
    YamlQuoted,
    JsonString,
    JsonNumber,
    TomlString,
    TomlNumber,
}

#[derive(Clone, Debug, PartialEq, Eq)]
pub enum Expect {
    /// canonical rendering of the value ("1024" bytes, "Hour(3)", "90s")
    Value(String),
    Reject,
    /// exact value if accepted; rejection is also fine (a limit of the format or of humantime, not a wrap)
    ValueOrReject(String),
    /// the property text does not decide this form
    Either,
}

#[derive(Clone, Debug)]
pub struct Case {
    pub kind: Kind,
    pub form: Form,
    pub text: String,
    pub expect: Expect,
}

fn doc(kind: Kind, form: Form, text: &str) -> String {
    let key = match kind {
        Kind::Size => "limit",
        Kind::Interval => "interval",
        Kind::Refresh => "refresh_rate",
    };
    match form {
        Form::YamlPlain => format!("{}: {}\n", key, text),
        Form::YamlQuoted => format!("{}: \"{}\"\n", key, text.replace('\t', "\\t")),
        Form::JsonString => format!("{{\"{}\": \"{}\"}}", key, text.replace('\t', "\\t")),
        Form::JsonNumber => format!("{{\"{}\": {}}}", key, text),
        Form::TomlString => format!("{} = \"{}\"\n", key, text.replace('\t', "\\t")),
        Form::TomlNumber => format!("{} = {}\n", key, text),
    }
}

#[derive(serde::Deserialize)]
struct IntervalDoc {
    interval: TimeTriggerInterval,
}

fn render_interval(i: TimeTriggerInterval) -> String {
    format!("{:?}", i)
}

/// Ok(rendering) / Err(message); panics are caught by the caller
fn parse(kind: Kind, form: Form, text: &str) -> Result<String, String> {
    let d = doc(kind, form, text);
    match kind {
        Kind::Size => {
            let cfg: SizeTriggerConfig = match form {
                Form::YamlPlain | Form::YamlQuoted => serde_yaml::from_str(&d).map_err(|e| e.to_string())?,
                Form::JsonString | Form::JsonNumber => serde_json::from_str(&d).map_err(|e| e.to_string())?,
                Form::TomlString | Form::TomlNumber => toml::from_str(&d).map_err(|e| e.to_string())?,
            };
            // SizeTriggerConfig { limit: N }
            let dbg = format!("{:?}", cfg);
            let n: String = dbg.chars().filter(|c| c.is_ascii_digit()).collect();
            Ok(n)
        }
        Kind::Interval => {
            let cfg: IntervalDoc = match form {
                Form::YamlPlain | Form::YamlQuoted => serde_yaml::from_str(&d).map_err(|e| e.to_string())?,
                Form::JsonString | Form::JsonNumber => serde_json::from_str(&d).map_err(|e| e.to_string())?,
                Form::TomlString | Form::TomlNumber => toml::from_str(&d).map_err(|e| e.to_string())?,
            };
            Ok(render_interval(cfg.interval))
        }
        Kind::Refresh => {
            let cfg: log4rs::config::RawConfig = match form {
                Form::YamlPlain | Form::YamlQuoted => serde_yaml::from_str(&d).map_err(|e| e.to_string())?,
                Form::JsonString | Form::JsonNumber => serde_json::from_str(&d).map_err(|e| e.to_string())?,
                Form::TomlString | Form::TomlNumber => toml::from_str(&d).map_err(|e| e.to_string())?,
            };
            match cfg.refresh_rate() {
                Some(d) => Ok(format!("{}ns", d.as_nanos())),
                None => Ok("none".into()),
            }
        }
    }
}

pub fn check(c: &Case) -> Option<(String, String)> {
    let r = catch_panic(|| parse(c.kind, c.form, &c.text));
    let got = match r {
        Err(p) => return Some((format!("panic:{:?}:{}", c.kind, panic_site(&p)), format!("{:?} {:?} {:?}: {}", c.kind, c.form, c.text, p))),
        Ok(g) => g,
    };
    match (&c.expect, &got) {
        (Expect::Either, _) => None,
        (Expect::ValueOrReject(_), Err(_)) => None,
        (Expect::ValueOrReject(v), Ok(g)) if v == g => None,
        (Expect::ValueOrReject(v), Ok(g)) => Some((
            format!("{:?}:{}", c.kind, if g.contains('-') { "wrapped-value" } else { "wrong-value" }),
            format!("{:?} literal {:?} ({:?}) parsed to {}, exact value is {}", c.kind, c.text, c.form, g, v),
        )),
        (Expect::Value(v), Ok(g)) if v == g => None,
        (Expect::Value(v), Ok(g)) => {
            let wrapped = g.contains('-');
            Some((
                format!("{:?}:{}", c.kind, if wrapped { "wrapped-value" } else { "wrong-value" }),
                format!("{:?} literal {:?} ({:?}) parsed to {}, exact value is {}", c.kind, c.text, c.form, g, v),
            ))
        }
        (Expect::Value(v), Err(e)) => Some((format!("{:?}:valid-literal-rejected", c.kind), format!("{:?} literal {:?} ({:?}) rejected ({}), exact value is {}", c.kind, c.text, c.form, e, v))),
        (Expect::Reject, Err(_)) => None,
        (Expect::Reject, Ok(g)) => {
            let kind = if g.contains('-') { "wrapped-value" } else { "bad-literal-accepted" };
            Some((format!("{:?}:{}", c.kind, kind), format!("{:?} literal {:?} ({:?}) must be rejected but parsed to {}", c.kind, c.text, c.form, g)))
        }
    }
}

fn case_variants(s: &str) -> Vec<String> {
    let cs: Vec<char> = s.chars().collect();
    let n = cs.len();
    (0..(1u32 << n))
        .map(|mask| cs.iter().enumerate().map(|(i, c)| if mask & (1 << i) != 0 { c.to_ascii_uppercase() } else { *c }).collect())
        .collect()
}

fn numbers(tier: Tier) -> Vec<String> {
    let mut v: Vec<u128> = vec![0, 1, 2, 9, 10, 1023, 1024, 1025, 4096, 65535];
    let mut k = 1u128;
    for _ in 0..21 {
        k *= 10;
        v.push(k);
        if tier == Tier::Thorough {
            v.push(k - 1);
        }
    }
    for j in [14u32, 24, 34, 44, 54, 63, 64] {
        let p = 1u128 << j;
        v.extend([p - 1, p, p + 1]);
    }
    v.extend([u64::MAX as u128 / 1024, u64::MAX as u128 / 1024 + 1, i64::MAX as u128, u64::MAX as u128, 99999999999999999999u128, 100000000000000000000u128, 340282366920938463463374607431768211455u128]);
    v.sort();
    v.dedup();
    let mut out: Vec<String> = v.iter().map(|n| n.to_string()).collect();
    out.extend(["007".to_string(), "00".to_string(), "0001024".to_string(), "00000000000000000000018446744073709551616".to_string()]);
    out
}

const SIZE_UNITS: [(&str, u32); 9] = [("b", 0), ("kb", 1), ("mb", 2), ("gb", 3), ("tb", 4), ("kib", 1), ("mib", 2), ("gib", 3), ("tib", 4)];
const INTERVAL_UNITS: [(&str, &str); 14] = [
    ("second", "Second"), ("seconds", "Second"), ("minute", "Minute"), ("minutes", "Minute"), ("hour", "Hour"), ("hours", "Hour"), ("day", "Day"),
    ("days", "Day"), ("week", "Week"), ("weeks", "Week"), ("month", "Month"), ("months", "Month"), ("year", "Year"), ("years", "Year"),
];
const STRING_FORMS: [Form; 4] = [Form::YamlPlain, Form::YamlQuoted, Form::JsonString, Form::TomlString];

fn size_expect(num: &str, exp: u32) -> Expect {
    let n: u128 = num.parse().unwrap();
    match n.checked_mul(1024u128.pow(exp)) {
        Some(v) if v <= u64::MAX as u128 => Expect::Value(v.to_string()),
        _ => Expect::Reject,
    }
}

fn interval_expect(num: &str, variant: &str) -> Expect {
    let n: u128 = num.parse().unwrap();
    if n <= i64::MAX as u128 {
        Expect::Value(format!("{}({})", variant, n))
    } else {
        Expect::Reject
    }
}

pub fn cases(tier: Tier) -> Vec<Case> {
    let nums = numbers(tier);
    let spaces = ["", " ", "  ", "\t"];
    let mut out = vec![];
    let plain_ok = |t: &str| !t.contains('\t') && !t.ends_with(' ') && !t.starts_with(' ');
    // <number><ws><unit><trailing ws>, every case variant of every unit
    for num in &nums {
        for (unit, exp) in SIZE_UNITS {
            let variants = if tier == Tier::Thorough || num.len() < 6 { case_variants(unit) } else { vec![unit.to_string(), unit.to_uppercase(), case_variants(unit)[1].clone()] };
            for u in variants {
                for sp in spaces {
                    for trail in ["", " "] {
                        let text = format!("{}{}{}{}", num, sp, u, trail);
                        for form in STRING_FORMS {
                            if form == Form::YamlPlain && !plain_ok(&text) {
                                continue;
                            }
                            out.push(Case { kind: Kind::Size, form, text: text.clone(), expect: size_expect(num, exp) });
                        }
                    }
                }
            }
        }
        for (unit, variant) in INTERVAL_UNITS {
            let all = case_variants(unit);
            let variants: Vec<String> = if tier == Tier::Thorough && num.len() < 4 {
                all
            } else {
                // lower, upper, each single upper-cased letter
                let mut v = vec![unit.to_string(), unit.to_uppercase()];
                for i in 0..unit.len() {
                    v.push(all[1 << i].clone());
                }
                v
            };
            for u in variants {
                for sp in spaces {
                    let text = format!("{}{}{}", num, sp, u);
                    for form in STRING_FORMS {
                        if form == Form::YamlPlain && !plain_ok(&text) {
                            continue;
                        }
                        out.push(Case { kind: Kind::Interval, form, text: text.clone(), expect: interval_expect(num, variant) });
                    }
                }
            }
        }
        // bare numbers: bytes / seconds, as strings and as integer scalars
        let leading_zero = num.len() > 1 && num.starts_with('0');
        for form in [Form::YamlQuoted, Form::JsonString, Form::TomlString, Form::YamlPlain, Form::JsonNumber, Form::TomlNumber] {
            let numeric_form = matches!(form, Form::YamlPlain | Form::JsonNumber | Form::TomlNumber);
            // integer scalars with leading zeros are not valid JSON/TOML and format-dependent in YAML
            let toml_too_big = form == Form::TomlNumber && num.parse::<u128>().map_or(true, |n| n > i64::MAX as u128);
            let (se, ie) = if numeric_form && leading_zero {
                (Expect::Either, Expect::Either)
            } else if toml_too_big {
                // TOML integers are 64-bit signed by specification: the document itself is invalid
                (match size_expect(num, 0) { Expect::Value(v) => Expect::ValueOrReject(v), e => e }, interval_expect(num, "Second"))
            } else {
                (size_expect(num, 0), interval_expect(num, "Second"))
            };
            out.push(Case { kind: Kind::Size, form, text: num.clone(), expect: se });
            out.push(Case { kind: Kind::Interval, form, text: num.clone(), expect: ie });
        }
    }
    // rejected classes
    let junk_units = ["kbx", "k b", "bytes", "-", ".5", ".5kb", "kb kb", "k", "kbs", "bb", "pb", "kb1", "kb-", "e3", "x", "kіb", "㎅", "secondss", "sec", "s", "min", "h", "hr", "d", "w", "fortnight", "seconds1", "second s"];
    for num in ["0", "1", "10", "1024"] {
        for j in junk_units {
            for sp in ["", " "] {
                let text = format!("{}{}{}", num, sp, j);
                for form in [Form::YamlQuoted, Form::JsonString, Form::TomlString] {
                    let is_size_unit = SIZE_UNITS.iter().any(|(u, _)| u.eq_ignore_ascii_case(j.trim()));
                    let is_int_unit = INTERVAL_UNITS.iter().any(|(u, _)| u.eq_ignore_ascii_case(j.trim()));
                    out.push(Case { kind: Kind::Size, form, text: text.clone(), expect: if is_size_unit { Expect::Either } else { Expect::Reject } });
                    out.push(Case { kind: Kind::Interval, form, text: text.clone(), expect: if is_int_unit { Expect::Either } else { Expect::Reject } });
                }
            }
        }
    }
    // systematic unit damage: every string over a small alphabet (ASCII unit letters plus a two-byte and a
    // three-byte character) up to three characters, and every valid unit with one character deleted or one
    // character inserted at every position; whatever is not a documented unit must be rejected
    let mut damaged: Vec<String> = vec![];
    {
        let alpha = ['i', 'b', 'k', 's', 'e', 'é', '分'];
        let mut fr: Vec<String> = vec![String::new()];
        for _ in 0..3 {
            let mut nx = vec![];
            for w in &fr {
                for c in alpha {
                    let mut n = w.clone();
                    n.push(c);
                    nx.push(n);
                }
            }
            damaged.extend(nx.iter().cloned());
            fr = nx;
        }
        let valid: Vec<&str> = SIZE_UNITS.iter().map(|(u, _)| *u).chain(INTERVAL_UNITS.iter().map(|(u, _)| *u)).collect();
        for u in valid {
            let cs: Vec<char> = u.chars().collect();
            for i in 0..cs.len() {
                let mut d = cs.clone();
                d.remove(i);
                damaged.push(d.into_iter().collect());
            }
            for i in 0..=cs.len() {
                for ins in ['s', 'i', 'é', '分', '😀'] {
                    let mut d = cs.clone();
                    d.insert(i, ins);
                    damaged.push(d.into_iter().collect());
                }
            }
        }
        // letters whose Unicode case mapping lands on an ASCII letter (KELVIN SIGN -> k, LONG S -> S, dotted/dotless i)
        let valid2: Vec<&str> = SIZE_UNITS.iter().map(|(u, _)| *u).chain(INTERVAL_UNITS.iter().map(|(u, _)| *u)).collect();
        for u in valid2 {
            let cs: Vec<char> = u.chars().collect();
            for i in 0..cs.len() {
                let subs: &[char] = match cs[i] {
                    'k' => &['\u{212a}'],
                    's' => &['\u{17f}'],
                    'i' => &['\u{130}', '\u{131}'],
                    _ => &[],
                };
                for sub in subs {
                    let mut d = cs.clone();
                    d[i] = *sub;
                    damaged.push(d.iter().collect());
                    damaged.push(d.iter().collect::<String>().to_uppercase());
                }
            }
        }
        damaged.sort();
        damaged.dedup();
        damaged.retain(|d| !d.is_empty());
    }
    for j in &damaged {
        for sp in ["", " "] {
            let text = format!("7{}{}", sp, j);
            for form in [Form::YamlQuoted, Form::JsonString, Form::TomlString] {
                let is_size_unit = SIZE_UNITS.iter().any(|(u, _)| u.eq_ignore_ascii_case(j));
                let is_int_unit = INTERVAL_UNITS.iter().any(|(u, _)| u.eq_ignore_ascii_case(j));
                if !is_size_unit {
                    out.push(Case { kind: Kind::Size, form, text: text.clone(), expect: Expect::Reject });
                }
                if !is_int_unit {
                    out.push(Case { kind: Kind::Interval, form, text: text.clone(), expect: Expect::Reject });
                }
            }
        }
    }
    for neg in ["-1", "-0", "-1024", "-1 kb", "- 1", "-9223372036854775808", "-9223372036854775809", "1.5", "1.0", "0.5 kb", "1.5 hours", ".5", "1.", "1,5", "1_000", "0x10 kb", "١٢ kb", "", " ", "kb", "second", "+", "--1"] {
        for form in [Form::YamlQuoted, Form::JsonString, Form::TomlString] {
            out.push(Case { kind: Kind::Size, form, text: neg.to_string(), expect: Expect::Reject });
            out.push(Case { kind: Kind::Interval, form, text: neg.to_string(), expect: Expect::Reject });
        }
    }
    for negnum in ["-1", "-1024", "-9223372036854775808", "1.5", "-0.5", "0.0"] {
        for form in [Form::YamlPlain, Form::JsonNumber, Form::TomlNumber] {
            out.push(Case { kind: Kind::Size, form, text: negnum.to_string(), expect: Expect::Reject });
            out.push(Case { kind: Kind::Interval, form, text: negnum.to_string(), expect: Expect::Reject });
        }
    }
    // forms the property does not decide: leading white space, explicit plus sign, exponent
    for t in [" 10 kb", "\t10", "+5", "+5 kb", "1e3", "1E3 kb"] {
        for form in [Form::YamlQuoted, Form::JsonString, Form::TomlString] {
            out.push(Case { kind: Kind::Size, form, text: t.to_string(), expect: Expect::Either });
            out.push(Case { kind: Kind::Interval, form, text: t.to_string(), expect: Expect::Either });
        }
    }
    // refresh_rate (humantime): exact seconds, sums, overflow, junk; case is significant there (m/M)
    let hunits: [(&str, u128); 25] = [("M", 2_630_016), ("month", 2_630_016), ("months", 2_630_016), ("w", 604_800), ("week", 604_800), ("weeks", 604_800), ("y", 31_557_600), ("year", 31_557_600), ("years", 31_557_600), ("hr", 3600), ("hrs", 3600), ("s", 1), ("sec", 1), ("second", 1), ("seconds", 1), ("m", 60), ("min", 60), ("minute", 60), ("minutes", 60), ("h", 3600), ("hour", 3600), ("hours", 3600), ("d", 86400), ("day", 86400), ("days", 86400)];
    let ns = 1_000_000_000u128;
    for num in &nums {
        if num.starts_with('0') && num.len() > 1 {
            continue;
        }
        let n: u128 = num.parse().unwrap();
        for (u, secs) in hunits {
            for sp in ["", " "] {
                let text = format!("{}{}{}", num, sp, u);
                let expect = match n.checked_mul(secs) {
                    Some(total) if total <= u64::MAX as u128 / ns => Expect::Value(format!("{}ns", total * ns)),
                    Some(total) if total <= u64::MAX as u128 => Expect::ValueOrReject(format!("{}ns", total * ns)),
                    _ => Expect::Reject,
                };
                for form in [Form::YamlQuoted, Form::JsonString, Form::TomlString, Form::YamlPlain] {
                    if form == Form::YamlPlain && sp.is_empty() && false {
                        continue;
                    }
                    out.push(Case { kind: Kind::Refresh, form, text: text.clone(), expect: expect.clone() });
                }
                // sums of two terms
                if n < 1_000_000 {
                    let text2 = format!("{}{}{} 30s", num, sp, u);
                    out.push(Case { kind: Kind::Refresh, form: Form::YamlQuoted, text: text2.clone(), expect: Expect::Value(format!("{}ns", (n * secs + 30) * ns)) });
                    let text3 = format!("1h {}{}{}", num, sp, u);
                    out.push(Case { kind: Kind::Refresh, form: Form::JsonString, text: text3, expect: Expect::Value(format!("{}ns", (n * secs + 3600) * ns)) });
                }
            }
        }
        for form in [Form::YamlQuoted, Form::JsonString] {
            out.push(Case { kind: Kind::Refresh, form, text: format!("{}ms", num), expect: if n <= u64::MAX as u128 / 1_000_000 { Expect::Value(format!("{}ns", n * 1_000_000)) } else if n / 1000 <= u64::MAX as u128 { Expect::ValueOrReject(format!("{}ns", n * 1_000_000)) } else { Expect::Reject } });
        }
        // bare integers: the property speaks of size limits and trigger intervals; undecided for refresh_rate
        for form in [Form::YamlPlain, Form::JsonNumber, Form::YamlQuoted] {
            out.push(Case { kind: Kind::Refresh, form, text: num.clone(), expect: Expect::Either });
        }
    }
    // sums that reach the very top of the representable range: the exact value (if it fits) or a rejection, no panic
    for (text, exact) in [
        ("18446744073709551615s 1000ms", None),
        ("18446744073709551615 seconds 1000000000 ns", None),
        ("307445734561825860 minutes 15 s 999 ms 1000 us", None),
        ("18446744073709551615s 999ms", Some("18446744073709551615999000000ns")),
        ("18446744073709551614s 1000ms", Some("18446744073709551615000000000ns")),
        ("18446744073709551615s 1001ms", None),
        ("18446744073709551615s 1s", None),
    ] {
        for form in [Form::YamlQuoted, Form::JsonString, Form::TomlString] {
            out.push(Case { kind: Kind::Refresh, form, text: text.to_string(), expect: match exact { Some(v) => Expect::ValueOrReject(v.to_string()), None => Expect::Reject } });
        }
    }
    for junk in ["10 parsecs", "s", "10 s s", "-5s", "5 s!", "ten seconds", "5sx", "30 Seconds", "1 H", "5 MIN", "2 Days"] {
        for form in [Form::YamlQuoted, Form::JsonString, Form::TomlString] {
            out.push(Case { kind: Kind::Refresh, form, text: junk.to_string(), expect: Expect::Reject });
        }
    }
    out
}

fn case_json(c: &Case) -> Value {
    json!({"kind": format!("{:?}", c.kind), "form": format!("{:?}", c.form), "text": c.text,
           "expect": match &c.expect { Expect::Value(v) => json!({"value": v}), Expect::Reject => json!("reject"), Expect::Either => json!("either"), Expect::ValueOrReject(v) => json!({"value_or_reject": v}) }})
}

fn case_from_json(v: &Value) -> Option<Case> {
    Some(Case {
        kind: match v["kind"].as_str()? {
            "Size" => Kind::Size,
            "Interval" => Kind::Interval,
            _ => Kind::Refresh,
        },
        form: match v["form"].as_str()? {
            "YamlPlain" => Form::YamlPlain,
            "YamlQuoted" => Form::YamlQuoted,
            "JsonString" => Form::JsonString,
            "JsonNumber" => Form::JsonNumber,
            "TomlString" => Form::TomlString,
            _ => Form::TomlNumber,
        },
        text: v["text"].as_str()?.to_owned(),
        expect: match &v["expect"] {
            Value::String(s) if s == "reject" => Expect::Reject,
            Value::String(_) => Expect::Either,
            o if o.get("value_or_reject").is_some() => Expect::ValueOrReject(o["value_or_reject"].as_str()?.to_owned()),
            o => Expect::Value(o["value"].as_str()?.to_owned()),
        },
    })
}

pub fn run(ctx: &Ctx) -> Report {
    let mut rep = Report::new("model_checking");
    rep.set(
        "rule",
        "E-ENUM: numbers (0, boundaries of every overflow threshold 2^(64-10e), 2^63, 2^64, 10^k up to 21 digits, leading zeros) x every unit and alias in letter-case \
         variants x white space placements x scalar forms (YAML plain/quoted/integer, JSON string/number, TOML string/integer), plus rejected classes (negative, fractional, \
         junk suffixes, unknown units) and humantime refresh_rate literals; compared with a u128 reference. Non-trivial = literal with a unit, or at/above an overflow threshold",
    );
    let cs = cases(ctx.tier);
    let bad: Vec<(usize, (String, String))> = cs.par_iter().enumerate().filter_map(|(i, c)| check(c).map(|m| (i, m))).collect();
    rep.set("evaluations", cs.len() as u64);
    rep.set("distinct_nontrivial", cs.iter().filter(|c| c.expect != Expect::Either && (c.text.chars().any(|ch| ch.is_alphabetic()) || c.expect == Expect::Reject)).count() as u64);
    rep.set("size_cases", cs.iter().filter(|c| c.kind == Kind::Size).count() as u64);
    rep.set("interval_cases", cs.iter().filter(|c| c.kind == Kind::Interval).count() as u64);
    rep.set("refresh_rate_cases", cs.iter().filter(|c| c.kind == Kind::Refresh).count() as u64);
    rep.set("expected_rejections", cs.iter().filter(|c| c.expect == Expect::Reject).count() as u64);
    for (i, (s, d)) in bad {
        rep.violation(s, d, case_json(&cs[i]));
    }
    for k in [3usize, 5, 8] {
        rep.sample(case_json(&cs[(ctx.seed as usize * 101 + cs.len() * k / 10) % cs.len()]));
    }
    rep.assume("leading white space, an explicit '+', exponent forms, integer scalars with leading zeros, and bare numbers for refresh_rate are not decided by the property text: either outcome is accepted");
    rep
}

pub fn replay(case: &Value) -> Result<(), String> {
    let c = case_from_json(case).ok_or("bad case")?;
    match check(&c) {
        None => Ok(()),
        Some((s, d)) => Err(format!("{}: {}", s, d)),
    }
}
