//! Reference model of logger routing (shared by C01, C02, C14, C15) and builders that turn a
//! logical configuration into a real `log4rs::Config`.  The model never calls into log4rs.

use log::{Level, LevelFilter};
use log4rs::{
    append::Append,
    config::{Appender, Config, Logger, Root},
};
use std::collections::BTreeMap;

#[derive(Clone, Debug, PartialEq, Eq, Hash)]
pub struct LoggerSpec {
    pub name: String,
    pub level: LevelFilter,
    pub additive: bool,
    pub appenders: Vec<String>,
}

#[derive(Clone, Debug, PartialEq, Eq, Hash)]
pub struct ConfSpec {
    /// appender names in declaration order
    pub appender_names: Vec<String>,
    pub root_level: LevelFilter,
    pub root_appenders: Vec<String>,
    /// loggers in declaration order
    pub loggers: Vec<LoggerSpec>,
}

pub const LEVELS: [Level; 5] = [
    Level::Error,
    Level::Warn,
    Level::Info,
    Level::Debug,
    Level::Trace,
];

pub const FILTERS: [LevelFilter; 6] = [
    LevelFilter::Off,
    LevelFilter::Error,
    LevelFilter::Warn,
    LevelFilter::Info,
    LevelFilter::Debug,
    LevelFilter::Trace,
];

fn rank(l: Level) -> u8 {
    match l {
        Level::Error => 1,
        Level::Warn => 2,
        Level::Info => 3,
        Level::Debug => 4,
        Level::Trace => 5,
    }
}

pub fn frank(l: LevelFilter) -> u8 {
    match l {
        LevelFilter::Off => 0,
        LevelFilter::Error => 1,
        LevelFilter::Warn => 2,
        LevelFilter::Info => 3,
        LevelFilter::Debug => 4,
        LevelFilter::Trace => 5,
    }
}

/// threshold `f` admits level `l`
pub fn admits(f: LevelFilter, l: Level) -> bool {
    rank(l) <= frank(f)
}

/// All readings of a target as '::'-separated components.  A run of exactly two colons is a
/// separator, a single colon is ordinary text; for a run of three or more colons the property
/// text does not say which pair separates, so every placement of non-overlapping pairs that
/// leaves no further pair is returned (leftmost-greedy and rightmost-greedy).
pub fn tokenisations(t: &str) -> Vec<Vec<String>> {
    fn split_left(t: &str) -> Vec<String> {
        t.split("::").map(|s| s.to_owned()).collect()
    }
    fn split_right(t: &str) -> Vec<String> {
        let mut v: Vec<String> = t.rsplit("::").map(|s| s.to_owned()).collect();
        v.reverse();
        v
    }
    let a = split_left(t);
    let b = split_right(t);
    if a == b {
        vec![a]
    } else {
        vec![a, b]
    }
}

fn name_comps(n: &str) -> Vec<&str> {
    n.split("::").collect()
}

fn is_comp_prefix(name: &[&str], target: &[String]) -> bool {
    name.len() <= target.len() && name.iter().zip(target).all(|(a, b)| a == b)
}

/// index of the declared logger that is the longest component-wise prefix of the target
pub fn effective(conf: &ConfSpec, target: &[String]) -> Option<usize> {
    let mut best: Option<(usize, usize)> = None;
    for (i, l) in conf.loggers.iter().enumerate() {
        let nc = name_comps(&l.name);
        if is_comp_prefix(&nc, target) && best.map_or(true, |(_, len)| nc.len() > len) {
            best = Some((i, nc.len()));
        }
    }
    best.map(|(i, _)| i)
}

/// nearest declared proper ancestor of declared logger i
pub fn parent_of(conf: &ConfSpec, i: usize) -> Option<usize> {
    let me: Vec<String> = name_comps(&conf.loggers[i].name)
        .iter()
        .map(|s| s.to_string())
        .collect();
    let mut best: Option<(usize, usize)> = None;
    for (j, l) in conf.loggers.iter().enumerate() {
        if j == i {
            continue;
        }
        let nc = name_comps(&l.name);
        if nc.len() < me.len() && is_comp_prefix(&nc, &me) && best.map_or(true, |(_, len)| nc.len() > len) {
            best = Some((j, nc.len()));
        }
    }
    best.map(|(j, _)| j)
}

/// the attachments (with multiplicity) reached from logger `at` (None = root)
pub fn chain(conf: &ConfSpec, at: Option<usize>) -> BTreeMap<String, usize> {
    let mut out = BTreeMap::new();
    let mut cur = at;
    loop {
        match cur {
            None => {
                for a in &conf.root_appenders {
                    *out.entry(a.clone()).or_insert(0) += 1;
                }
                return out;
            }
            Some(i) => {
                for a in &conf.loggers[i].appenders {
                    *out.entry(a.clone()).or_insert(0) += 1;
                }
                if !conf.loggers[i].additive {
                    return out;
                }
                cur = parent_of(conf, i);
            }
        }
    }
}

#[derive(Clone, Debug, PartialEq, Eq)]
pub struct Routing {
    pub admit: bool,
    /// expected deliveries per appender name (absent = 0)
    pub deliveries: BTreeMap<String, usize>,
}

/// all routings the property allows for (target, level) — more than one only for ':::' targets
pub fn routes(conf: &ConfSpec, target: &str, level: Level) -> Vec<Routing> {
    let mut out: Vec<Routing> = vec![];
    for tok in tokenisations(target) {
        let eff = effective(conf, &tok);
        let thr = match eff {
            Some(i) => conf.loggers[i].level,
            None => conf.root_level,
        };
        let admit = admits(thr, level);
        let deliveries = if admit { chain(conf, eff) } else { BTreeMap::new() };
        let r = Routing { admit, deliveries };
        if !out.contains(&r) {
            out.push(r);
        }
    }
    out
}

pub fn max_level(conf: &ConfSpec) -> LevelFilter {
    let mut m = conf.root_level;
    for l in &conf.loggers {
        if frank(l.level) > frank(m) {
            m = l.level;
        }
    }
    m
}

/// Builds the real configuration through the public builders (strict `build`).
pub fn build_config(
    conf: &ConfSpec,
    mk: &mut dyn FnMut(&str) -> Box<dyn Append>,
) -> Result<Config, String> {
    let mut b = Config::builder();
    for n in &conf.appender_names {
        b = b.appender(Appender::builder().build(n.clone(), mk(n)));
    }
    for l in &conf.loggers {
        b = b.logger(
            Logger::builder()
                .additive(l.additive)
                .appenders(l.appenders.iter().cloned())
                .build(l.name.clone(), l.level),
        );
    }
    b.build(
        Root::builder()
            .appenders(conf.root_appenders.iter().cloned())
            .build(conf.root_level),
    )
    .map_err(|e| format!("{}", e))
}

pub fn conf_json(conf: &ConfSpec) -> serde_json::Value {
    serde_json::json!({
        "appenders": conf.appender_names,
        "root": {"level": conf.root_level.to_string(), "appenders": conf.root_appenders},
        "loggers": conf.loggers.iter().map(|l| serde_json::json!({
            "name": l.name, "level": l.level.to_string(), "additive": l.additive, "appenders": l.appenders
        })).collect::<Vec<_>>(),
    })
}

pub fn parse_filter(s: &str) -> LevelFilter {
    s.parse().unwrap_or(LevelFilter::Off)
}

pub fn conf_from_json(v: &serde_json::Value) -> Option<ConfSpec> {
    let strs = |v: &serde_json::Value| -> Vec<String> {
        v.as_array()
            .map(|a| a.iter().filter_map(|x| x.as_str().map(|s| s.to_owned())).collect())
            .unwrap_or_default()
    };
    Some(ConfSpec {
        appender_names: strs(&v["appenders"]),
        root_level: parse_filter(v["root"]["level"].as_str()?),
        root_appenders: strs(&v["root"]["appenders"]),
        loggers: v["loggers"]
            .as_array()?
            .iter()
            .map(|l| LoggerSpec {
                name: l["name"].as_str().unwrap_or("").to_owned(),
                level: parse_filter(l["level"].as_str().unwrap_or("OFF")),
                additive: l["additive"].as_bool().unwrap_or(true),
                appenders: strs(&l["appenders"]),
            })
            .collect(),
    })
}
