//! C09 — pattern encoder output equals the pattern's meaning for well-formed patterns.
//! E-ENUM over pattern ASTs: the generator prints an AST to concrete syntax, the reference
//! renderer interprets the AST; the parser under test is never consulted by the oracle.

use super::c10::{Align, Spec};
use crate::engine::{capture::Sink, catch_panic, panic_site, proc::run_child, Ctx, Report, Tier};
use chrono::Datelike;
use log::{Level, Record};
use log4rs::encode::{pattern::PatternEncoder, Encode};
use serde_json::{json, Value};
use std::sync::{
    atomic::{AtomicU64, Ordering},
    Mutex,
};

#[derive(Clone, Debug, PartialEq)]
pub enum Item {
    /// (concrete syntax, text it stands for)
    Lit(&'static str, &'static str),
    /// name, arguments, spec
    Fmt(&'static str, Vec<Vec<Item>>, Spec),
}

#[derive(Clone, Debug)]
pub struct Rec {
    pub level: Level,
    pub msg: &'static str,
    pub target: &'static str,
    pub module: Option<&'static str>,
    pub file: Option<&'static str>,
    pub line: Option<u32>,
    /// value of MDC key "k" (None = absent)
    pub mdc: Option<&'static str>,
}

pub fn records() -> Vec<Rec> {
    vec![
        Rec { level: Level::Error, msg: "hi", target: "t", module: Some("mod::p"), file: Some("f.rs"), line: Some(42), mdc: Some("v") },
        Rec { level: Level::Warn, msg: "", target: "a::b", module: None, file: None, line: None, mdc: None },
        Rec { level: Level::Info, msg: "ünï", target: "é", module: Some("m::ö"), file: None, line: Some(0), mdc: Some("") },
        Rec { level: Level::Debug, msg: "{}()\\", target: "t", module: None, file: Some("dir/f.rs"), line: None, mdc: None },
        Rec { level: Level::Trace, msg: "hi", target: "", module: Some("x"), file: Some(""), line: Some(u32::MAX), mdc: Some("ü v") },
    ]
}

pub fn print(items: &[Item]) -> String {
    let mut s = String::new();
    for it in items {
        match it {
            Item::Lit(syn, _) => s.push_str(syn),
            Item::Fmt(name, args, spec) => {
                s.push('{');
                s.push_str(name);
                for a in args {
                    s.push('(');
                    s.push_str(&print(a));
                    s.push(')');
                }
                s.push_str(&spec.syntax());
                s.push('}');
            }
        }
    }
    s
}

/// rendered text plus highlight events as (character index, is_reset)
#[derive(Clone, Debug, Default, PartialEq)]
pub struct Out {
    pub text: String,
    pub events: Vec<(usize, bool)>,
}

/// Which levels a highlight group styles is the library's choice (the property only says that highlighting
/// adds styling without changing the text): it is read off the plain probe `{h(x)}` once per level, and
/// every highlight group of every pattern and nesting must then behave like that probe, with a reset at
/// the end of each styled group.
fn level_is_styled(level: Level) -> bool {
    static TABLE: std::sync::OnceLock<[bool; 5]> = std::sync::OnceLock::new();
    let t = TABLE.get_or_init(|| {
        let mut t = [false; 5];
        for (i, l) in [Level::Error, Level::Warn, Level::Info, Level::Debug, Level::Trace].iter().enumerate() {
            let enc = log4rs::encode::pattern::PatternEncoder::new("{h(x)}");
            let mut sink = crate::engine::capture::Sink::new(None);
            let _ = log4rs::encode::Encode::encode(&enc, &mut sink, &log::Record::builder().level(*l).args(format_args!("m")).build());
            t[i] = sink.styles.first().map_or(false, |e| !(e.text.is_none() && e.background.is_none() && e.intense.is_none()));
        }
        t
    });
    t[match level {
        Level::Error => 0,
        Level::Warn => 1,
        Level::Info => 2,
        Level::Debug => 3,
        Level::Trace => 4,
    }]
}

/// true if the plain probe styles at least one level ("highlight groups add styling")
pub fn some_level_is_styled() -> bool {
    [Level::Error, Level::Warn, Level::Info, Level::Debug, Level::Trace].iter().any(|l| level_is_styled(*l))
}

pub struct Env {
    pub thread_name: Option<String>,
    pub tid: String,
    pub pid: String,
    pub year_local: i32,
    pub year_utc: i32,
    pub debug_build: bool,
}

fn lit_text(items: &[Item]) -> String {
    items
        .iter()
        .map(|i| match i {
            Item::Lit(_, t) => *t,
            _ => "",
        })
        .collect()
}

pub fn render(items: &[Item], r: &Rec, env: &Env) -> Out {
    let mut out = Out::default();
    for it in items {
        match it {
            Item::Lit(_, t) => out.text.push_str(t),
            Item::Fmt(name, args, spec) => {
                let mut inner = Out::default();
                match *name {
                    "l" | "level" => inner.text = r.level.to_string(),
                    "m" | "message" => inner.text = r.msg.to_owned(),
                    "M" | "module" => inner.text = r.module.unwrap_or("???").to_owned(),
                    "f" | "file" => inner.text = r.file.unwrap_or("???").to_owned(),
                    "L" | "line" => inner.text = r.line.map_or("???".to_owned(), |l| l.to_string()),
                    "t" | "target" => inner.text = r.target.to_owned(),
                    "T" | "thread" => inner.text = env.thread_name.clone().unwrap_or_else(|| "unnamed".into()),
                    "I" | "thread_id" | "i" | "tid" => inner.text = env.tid.clone(),
                    "P" | "pid" => inner.text = env.pid.clone(),
                    "n" => inner.text = "\n".into(),
                    "X" | "mdc" => {
                        let key = lit_text(&args[0]);
                        let dflt = args.get(1).map(|a| lit_text(a)).unwrap_or_default();
                        inner.text = match (key == "k", r.mdc) {
                            (true, Some(v)) => v.to_owned(),
                            _ => dflt,
                        };
                    }
                    "d" | "date" => {
                        // only the generator's formats: %Y, %% and literal text
                        let fmt = lit_text(&args[0]);
                        let utc = args.get(1).map_or(false, |a| lit_text(a) == "utc");
                        let year = if utc { env.year_utc } else { env.year_local };
                        inner.text = fmt.replace("%Y", &year.to_string()).replace("%%", "%");
                    }
                    "h" | "highlight" => {
                        let body = render(&args[0], r, env);
                        let styled = level_is_styled(r.level);
                        if styled {
                            inner.events.push((0, false));
                        }
                        inner.events.extend(body.events.iter().cloned());
                        if styled {
                            inner.events.push((body.text.chars().count(), true));
                        }
                        inner.text = body.text;
                    }
                    "D" | "debug" => {
                        if env.debug_build {
                            inner = render(&args[0], r, env);
                        }
                    }
                    "R" | "release" => {
                        if !env.debug_build {
                            inner = render(&args[0], r, env);
                        }
                    }
                    "" => inner = render(&args[0], r, env),
                    other => panic!("generator produced unknown formatter {}", other),
                }
                // apply the format spec (C10's law) to text and event positions
                let n = inner.text.chars().count();
                let cut = spec.max.map_or(n, |m| m.min(n));
                let pad = spec.min.map_or(0, |m| m.saturating_sub(cut));
                let shift = if spec.align == Align::Right { pad } else { 0 };
                let base = out.text.chars().count();
                for (at, reset) in inner.events {
                    out.events.push((base + shift + at.min(cut), reset));
                }
                out.text.push_str(&spec.apply(&inner.text));
            }
        }
    }
    out
}

fn char_to_byte(s: &str, ci: usize) -> usize {
    s.char_indices().nth(ci).map_or(s.len(), |(b, _)| b)
}

/// Encodes `items` for record `r` on the current thread and compares with the reference.
pub fn check_one(items: &[Item], pattern: &str, enc: &PatternEncoder, r: &Rec) -> Option<(String, String)> {
    match r.mdc {
        Some(v) => {
            log_mdc::insert("k", v);
        }
        None => {
            log_mdc::remove("k");
        }
    }
    let before_l = chrono::Local::now().year();
    let before_u = chrono::Utc::now().year();
    let mut sink = Sink::new(None);
    let res = catch_panic(|| {
        let mut b = Record::builder();
        b.level(r.level).target(r.target).module_path(r.module).file(r.file).line(r.line);
        enc.encode(&mut sink, &b.args(format_args!("{}", r.msg)).build())
    });
    match res {
        Err(p) => return Some((format!("panic-encode:{}", panic_site(&p)), format!("pattern {:?}: {}", pattern, p))),
        Ok(Err(e)) => return Some(("encode-error".into(), format!("pattern {:?}: {}", pattern, e))),
        Ok(Ok(())) => {}
    }
    let cur = std::thread::current();
    let mut env = Env {
        thread_name: cur.name().map(|s| s.to_owned()),
        tid: thread_id::get().to_string(),
        pid: std::process::id().to_string(),
        year_local: before_l,
        year_utc: before_u,
        debug_build: cfg!(debug_assertions),
    };
    let mut want = render(items, r, &env);
    if sink.buf != want.text.as_bytes() {
        // the clock may have crossed a year boundary during the call
        env.year_local = chrono::Local::now().year();
        env.year_utc = chrono::Utc::now().year();
        want = render(items, r, &env);
    }
    if sink.buf != want.text.as_bytes() {
        let got = String::from_utf8_lossy(&sink.buf).into_owned();
        let kind = if got.contains("{ERROR") {
            "well-formed-pattern-rejected"
        } else if got.len() < want.text.len() {
            "output-dropped"
        } else if got.len() > want.text.len() {
            "output-added"
        } else {
            "output-differs"
        };
        return Some((format!("pattern-meaning:{}", kind), format!("pattern {:?} level {}: output {:?}, meaning {:?}", pattern, r.level, got, want.text)));
    }
    // highlight: styling only at the group's boundaries, last event of a group is a reset
    let want_ev: Vec<(usize, bool)> = want.events.iter().map(|(c, reset)| (char_to_byte(&want.text, *c), *reset)).collect();
    let got_ev: Vec<(usize, bool)> = sink
        .styles
        .iter()
        .map(|e| (e.at, e.text.is_none() && e.background.is_none() && e.intense.is_none()))
        .collect();
    // A style request is absolute: of several requests at one byte offset only the last one has an effect, and a
    // reset while nothing is styled has none.  Both sequences are compared in that normal form (an implementation
    // may or may not issue the ineffective requests, e.g. around an empty highlighted group).
    fn effective(ev: &[(usize, bool)]) -> Vec<(usize, bool)> {
        let mut out: Vec<(usize, bool)> = vec![];
        for (i, e) in ev.iter().enumerate() {
            if ev.get(i + 1).map_or(false, |n| n.0 == e.0) {
                continue;
            }
            let styled_now = out.last().map_or(false, |l| !l.1);
            if e.1 && !styled_now {
                continue;
            }
            out.push(*e);
        }
        out
    }
    let (got_ev, want_ev) = (effective(&got_ev), effective(&want_ev));
    if got_ev != want_ev {
        return Some(("highlight:style-events".into(), format!("pattern {:?} level {}: style events (byte offset, is_reset) {:?}, expected {:?}", pattern, r.level, got_ev, want_ev)));
    }
    None
}

// ------------------------------------------------------------------------------- generators

fn leaf_lits(in_arg: bool) -> Vec<Item> {
    let mut v = vec![
        Item::Lit("x", "x"),
        Item::Lit(" ", " "),
        Item::Lit("é", "é"),
        Item::Lit("%", "%"),
        Item::Lit(":", ":"),
        Item::Lit("{{", "{"),
        Item::Lit("}}", "}"),
        Item::Lit("((", "("),
        Item::Lit("\\{", "{"),
        Item::Lit("\\}", "}"),
        Item::Lit("\\(", "("),
        Item::Lit("\\)", ")"),
        Item::Lit("\\\\", "\\"),
    ];
    if !in_arg {
        v.push(Item::Lit("))", ")"));
    }
    v
}

fn f0(name: &'static str, spec: &Spec) -> Item {
    Item::Fmt(name, vec![], spec.clone())
}

const SIMPLE: [&str; 21] = ["l", "level", "m", "message", "M", "module", "f", "file", "L", "line", "t", "target", "T", "thread", "I", "thread_id", "P", "pid", "i", "tid", "n"];
const SIMPLE_SHORT: [&str; 11] = ["l", "m", "M", "f", "L", "t", "T", "I", "P", "i", "n"];
const CONTAINERS: [&str; 7] = ["h", "highlight", "D", "debug", "R", "release", ""];

fn arg_fmts(spec: &Spec) -> Vec<Item> {
    let k = || vec![Item::Lit("k", "k")];
    let nk = || vec![Item::Lit("nokey", "nokey")];
    let d1 = || vec![Item::Lit("dflt", "dflt")];
    let d2 = || vec![Item::Lit("a b", "a b")];
    let y = || vec![Item::Lit("%Y", "%Y")];
    let y2 = || vec![Item::Lit("y=%Y %%", "y=%Y %%")];
    let mut v = vec![];
    for name in ["X", "mdc"] {
        v.push(Item::Fmt(name, vec![k()], spec.clone()));
        v.push(Item::Fmt(name, vec![k(), d1()], spec.clone()));
        v.push(Item::Fmt(name, vec![nk()], spec.clone()));
        v.push(Item::Fmt(name, vec![nk(), d2()], spec.clone()));
    }
    // keys and defaults written with escapes and doubled characters (several text pieces for the parser)
    v.push(Item::Fmt("X", vec![nk(), vec![Item::Lit("n/a ", "n/a "), Item::Lit("\\(", "("), Item::Lit("none", "none"), Item::Lit("\\)", ")")]], spec.clone()));
    v.push(Item::Fmt("mdc", vec![nk(), vec![Item::Lit("{{", "{"), Item::Lit("x", "x"), Item::Lit("}}", "}")]], spec.clone()));
    v.push(Item::Fmt("X", vec![vec![Item::Lit("k", "k")], vec![Item::Lit("((", "("), Item::Lit("d", "d")]], spec.clone()));
    for name in ["d", "date"] {
        v.push(Item::Fmt(name, vec![y()], spec.clone()));
        v.push(Item::Fmt(name, vec![y2(), vec![Item::Lit("utc", "utc")]], spec.clone()));
        v.push(Item::Fmt(name, vec![y(), vec![Item::Lit("local", "local")]], spec.clone()));
    }
    v
}

fn small_specs() -> Vec<Spec> {
    vec![
        Spec::none(),
        Spec { fill: None, align: Align::Right, min: Some(4), max: None },
        Spec { fill: None, align: Align::Default, min: None, max: Some(2) },
        Spec { fill: Some('é'), align: Align::Left, min: Some(3), max: Some(3) },
        Spec { fill: Some('~'), align: Align::Right, min: Some(6), max: None },
    ]
}

pub fn generate(tier: Tier) -> Vec<(String, Vec<Vec<Item>>)> {
    generate_ext(tier, false)
}

/// `extended` adds group E (thorough tier only): every triple over all top-level leaves and containers
/// around every triple of reduced leaves
pub fn generate_ext(tier: Tier, extended: bool) -> Vec<(String, Vec<Vec<Item>>)> {
    let specs = small_specs();
    let none = Spec::none();
    let mut groups = vec![];
    // leaves usable inside arguments (no spec) and at top level
    let mut leaves_arg: Vec<Item> = leaf_lits(true);
    leaves_arg.extend(SIMPLE.iter().map(|n| f0(n, &none)));
    leaves_arg.extend(arg_fmts(&none));
    let mut leaves_top: Vec<Item> = leaf_lits(false);
    leaves_top.extend(SIMPLE.iter().map(|n| f0(n, &none)));
    leaves_top.extend(arg_fmts(&none));

    // A: every single formatter and alias with every small spec
    let mut a = vec![];
    for s in &specs {
        for n in SIMPLE {
            a.push(vec![f0(n, s)]);
        }
        for f in arg_fmts(s) {
            a.push(vec![f]);
        }
    }
    for l in leaf_lits(false) {
        a.push(vec![l]);
    }
    groups.push(("A: every formatter and alias x every small spec; every literal/escape form".to_string(), a));

    // B: containers (h, D, R, unnamed + aliases) around every list of <= 2 (thorough: 3 reduced) leaves, every small spec
    let mut b = vec![];
    let mut inner_lists: Vec<Vec<Item>> = vec![vec![]];
    for x in &leaves_arg {
        inner_lists.push(vec![x.clone()]);
    }
    for x in &leaves_arg {
        for y in &leaves_arg {
            inner_lists.push(vec![x.clone(), y.clone()]);
        }
    }
    for c in CONTAINERS {
        for il in &inner_lists {
            for s in &specs {
                if tier == Tier::Quick && il.len() == 2 && *s != specs[0] && *s != specs[3] {
                    continue;
                }
                b.push(vec![Item::Fmt(c, vec![il.clone()], s.clone())]);
            }
        }
    }
    groups.push((format!("B: 7 containers x {} inner lists (<=2 leaves: {} literals/formatters) x small specs", inner_lists.len(), leaves_arg.len()), b));

    // C: containers nested in containers (depth 3) with leaf + neighbours
    let mut c = vec![];
    let inner_small: Vec<Item> = {
        let mut v = vec![Item::Lit("x", "x"), Item::Lit("\\)", ")"), Item::Lit("((", "(")];
        v.extend(SIMPLE_SHORT.iter().map(|n| f0(n, &specs[1])));
        v.push(Item::Fmt("X", vec![vec![Item::Lit("nokey", "nokey")], vec![Item::Lit("dflt", "dflt")]], none.clone()));
        v
    };
    for c1 in CONTAINERS {
        for c2 in CONTAINERS {
            for leaf in &inner_small {
                for s1 in [&specs[0], &specs[3], &specs[4]] {
                    for s2 in [&specs[0], &specs[1], &specs[2]] {
                        let inner = Item::Fmt(c2, vec![vec![leaf.clone(), Item::Lit("é", "é")]], (*s2).clone());
                        c.push(vec![Item::Fmt(c1, vec![vec![Item::Lit("<", "<"), inner, f0("l", &none)]], (*s1).clone())]);
                    }
                }
            }
        }
    }
    if tier == Tier::Thorough {
        for c1 in CONTAINERS {
            for c2 in CONTAINERS {
                for c3 in ["h", "", "D", "R"] {
                    for leaf in &inner_small {
                        let i3 = Item::Fmt(c3, vec![vec![leaf.clone()]], specs[2].clone());
                        let i2 = Item::Fmt(c2, vec![vec![i3, Item::Lit("}}", "}")]], specs[1].clone());
                        c.push(vec![Item::Fmt(c1, vec![vec![i2]], specs[3].clone()), Item::Lit("|", "|")]);
                    }
                }
            }
        }
    }
    groups.push(("C: containers nested in containers (depth 3; thorough: depth 4) with specs on every level".into(), c));

    // D: sequences of top-level items (adjacency of escapes and formatters)
    let mut d = vec![];
    let reduced: Vec<Item> = {
        let mut v = leaf_lits(false);
        v.extend(SIMPLE_SHORT.iter().map(|n| f0(n, &none)));
        v.push(f0("m", &specs[3]));
        v.push(Item::Fmt("h", vec![vec![f0("l", &none)]], none.clone()));
        v.push(Item::Fmt("", vec![vec![f0("m", &none), Item::Lit(" ", " ")]], specs[1].clone()));
        v.push(Item::Fmt("X", vec![vec![Item::Lit("k", "k")]], none.clone()));
        v.push(Item::Fmt("d", vec![vec![Item::Lit("%Y", "%Y")], vec![Item::Lit("utc", "utc")]], none.clone()));
        v
    };
    let top: &Vec<Item> = if tier == Tier::Thorough { &leaves_top } else { &reduced };
    for x in top {
        for y in top {
            d.push(vec![x.clone(), y.clone()]);
        }
    }
    for x in &reduced {
        for y in &reduced {
            for z in &reduced {
                d.push(vec![x.clone(), y.clone(), z.clone()]);
            }
        }
    }
    groups.push((format!("D: every pair over {} and every triple over {} top-level items", top.len(), reduced.len()), d));
    if extended {
        let mut e = vec![];
        for x in &leaves_top {
            for y in &leaves_top {
                for z in &leaves_top {
                    e.push(vec![x.clone(), y.clone(), z.clone()]);
                }
            }
        }
        let n_top = e.len();
        // inside an argument only the literal forms that are legal there
        let reduced_arg: Vec<Item> = {
            let mut v = leaf_lits(true);
            v.extend(SIMPLE_SHORT.iter().map(|n| f0(n, &none)));
            v.push(f0("m", &specs[3]));
            v.push(Item::Fmt("h", vec![vec![f0("l", &none)]], none.clone()));
            v.push(Item::Fmt("X", vec![vec![Item::Lit("k", "k")]], none.clone()));
            v
        };
        for c in CONTAINERS {
            for x in &reduced_arg {
                for y in &reduced_arg {
                    for z in &reduced_arg {
                        for sp in [&specs[0], &specs[2], &specs[4]] {
                            e.push(vec![Item::Fmt(c, vec![vec![x.clone(), y.clone(), z.clone()]], (*sp).clone())]);
                        }
                    }
                }
            }
        }
        groups.push((format!("E: every triple over {} top-level items ({}) and 7 containers x every triple over {} items x 3 specs", leaves_top.len(), n_top, reduced_arg.len()), e));
    }
    groups
}

fn special_cases(rep: &mut Report) {
    // default date format and zone arguments: the value is bracketed by two clock reads
    let rec = &records()[0];
    for (pat, utc) in [("{d}", false), ("{date}", false), ("{d(%+)(utc)}", true), ("{d(%+)(local)}", false), ("{d(%Y-%m-%dT%H:%M:%S%.f%:z)(utc)}", true)] {
        rep.add("evaluations", 1);
        let enc = PatternEncoder::new(pat);
        let before = chrono::Utc::now();
        let mut sink = Sink::new(None);
        let r = catch_panic(|| enc.encode(&mut sink, &Record::builder().level(rec.level).args(format_args!("x")).build()));
        let after = chrono::Utc::now();
        let s = String::from_utf8_lossy(&sink.buf).into_owned();
        match r {
            Ok(Ok(())) => match chrono::DateTime::parse_from_rfc3339(&s) {
                Ok(t) => {
                    let tu = t.with_timezone(&chrono::Utc);
                    if tu < before || tu > after {
                        rep.violation("date:not-current-time", format!("{:?} rendered {:?}, outside [{}, {}]", pat, s, before, after), json!({"pattern": pat}));
                    }
                    if utc && t.offset().local_minus_utc() != 0 {
                        rep.violation("date:zone", format!("{:?} rendered {:?}, expected a UTC offset", pat, s), json!({"pattern": pat}));
                    }
                }
                Err(e) => rep.violation("date:default-format", format!("{:?} rendered {:?}: not ISO 8601 ({})", pat, s, e), json!({"pattern": pat})),
            },
            other => rep.violation("date:failed", format!("{:?}: {:?}", pat, other.map(|r| r.map_err(|e| e.to_string()))), json!({"pattern": pat})),
        }
    }
}

/// child for the zone check: prints the rendering of %z in three forms
pub fn child_zone() -> i32 {
    let enc = PatternEncoder::new("{d(%z)}|{d(%z)(utc)}|{d(%z)(local)}|{d(%:z)(utc)}");
    let mut sink = Sink::new(None);
    let r = catch_panic(|| enc.encode(&mut sink, &Record::builder().args(format_args!("x")).build()));
    println!("{}", json!({"kind": "zone", "ok": matches!(r, Ok(Ok(()))), "out": String::from_utf8_lossy(&sink.buf)}));
    0
}

pub fn run(ctx: &Ctx) -> Report {
    let mut rep = Report::new("model_checking");
    rep.set(
        "rule",
        "E-ENUM over pattern ASTs (groups A-D): each AST is printed to concrete syntax, compiled with PatternEncoder::new and encoded for 5 records \
         (all levels, empty/Unicode/syntax-character messages, absent module/file/line, MDC present/absent) on a named and on an unnamed thread; \
         bytes and style events must equal the reference renderer's (which levels are styled is read off the probe {h(x)}; at least one must be). Non-trivial = pattern with at least one formatter (distinct patterns counted by their syntax)",
    );
    if !some_level_is_styled() {
        rep.violation("highlight:adds-no-styling", "the probe {h(x)} requests no style at any of the five levels", json!({"pattern": "{h(x)}"}));
    }
    // the generator's thorough domain is cheap enough for every run
    let groups = generate_ext(Tier::Thorough, ctx.tier == Tier::Thorough);
    let recs = records();
    let mut notes = vec![];
    let evals = AtomicU64::new(0);
    let found: Mutex<Vec<(usize, String, String, Value)>> = Mutex::new(vec![]);
    let mut all: Vec<Vec<Item>> = vec![];
    for (desc, g) in groups {
        notes.push(format!("{}: {} patterns", desc, g.len()));
        all.extend(g);
    }
    // distinct patterns by syntax
    let mut pats: Vec<(String, Vec<Item>)> = all.into_iter().map(|i| (print(&i), i)).collect();
    pats.sort_by(|a, b| a.0.len().cmp(&b.0.len()).then(a.0.cmp(&b.0)));
    pats.dedup_by(|a, b| a.0 == b.0);
    let nontrivial = pats.iter().filter(|(_, i)| i.iter().any(|x| matches!(x, Item::Fmt(..)))).count();
    let workers = 8;
    std::thread::scope(|s| {
        for named in [true, false] {
            for w in 0..workers {
                let pats = &pats;
                let recs = &recs;
                let evals = &evals;
                let found = &found;
                let b = std::thread::Builder::new();
                let b = if named { b.name("worker".into()) } else { b };
                b.spawn_scoped(s, move || {
                    for (idx, (pattern, items)) in pats.iter().enumerate() {
                        if idx % workers != w || ctx.over_cap() {
                            continue;
                        }
                        let enc = match catch_panic(|| PatternEncoder::new(pattern)) {
                            Ok(e) => e,
                            Err(p) => {
                                found.lock().unwrap().push((idx, format!("panic-new:{}", panic_site(&p)), p, json!({"pattern": pattern})));
                                continue;
                            }
                        };
                        for (ri, r) in recs.iter().enumerate() {
                            evals.fetch_add(1, Ordering::Relaxed);
                            if let Some((sig, detail)) = check_one(items, pattern, &enc, r) {
                                found.lock().unwrap().push((idx, sig, detail, json!({"pattern": pattern, "record": ri, "named_thread": named})));
                                break;
                            }
                        }
                    }
                })
                .unwrap();
            }
        }
    });
    let mut f = found.into_inner().unwrap();
    f.sort_by_key(|x| x.0);
    for (_, sig, detail, case) in f {
        rep.violation(sig, detail, case);
    }
    rep.add("evaluations", evals.into_inner());
    rep.set("patterns", pats.len() as u64);
    rep.set("distinct_nontrivial", nontrivial as u64);
    rep.set("groups", json!(notes));
    rep.set("debug_build_branch", cfg!(debug_assertions));
    special_cases(&mut rep);
    // zone children (fixed-offset zones, so the expectation is independent of the date)
    for (tz, off) in [("Asia/Tokyo", "+0900"), ("Asia/Kolkata", "+0530"), ("UTC", "+0000"), ("America/Phoenix", "-0700")] {
        let o = run_child(&ctx.exe, "c09zone", &[], &[("TZ".into(), tz.into())], std::time::Duration::from_secs(30));
        let lines = o.json_lines();
        match lines.first() {
            Some(v) => {
                rep.add("evaluations", 1);
                let want = format!("{}|+0000|{}|+00:00", off, off);
                if v["out"].as_str() != Some(&want) {
                    rep.violation("date:zone", format!("TZ={}: rendered {:?}, expected {:?}", tz, v["out"], want), json!({"tz": tz}));
                }
            }
            None => {
                eprintln!("MACHINERY FAILURE: zone child produced nothing: {}", String::from_utf8_lossy(&o.stderr));
                std::process::exit(2);
            }
        }
    }
    // the other build profile (thorough): same sweep with release semantics for {D}/{R}
    if ctx.tier == Tier::Thorough {
        if let Ok(bin) = std::env::var("VERIF_REL_BIN") {
            let o = run_child(std::path::Path::new(&bin), "c09sweep", &[], &[], std::time::Duration::from_secs(1200));
            let mut ok = false;
            for v in o.json_lines() {
                if v["kind"] == "stat" {
                    ok = true;
                    rep.add("evaluations", v["evaluations"].as_u64().unwrap_or(0));
                    rep.set("release_build_patterns", v["patterns"].clone());
                }
                if v["kind"] == "violation" {
                    rep.violation(format!("release-build:{}", v["sig"].as_str().unwrap_or("")), v["detail"].as_str().unwrap_or(""), v["case"].clone());
                }
            }
            if !ok {
                eprintln!("MACHINERY FAILURE: release-profile child failed: {}", String::from_utf8_lossy(&o.stderr));
                std::process::exit(2);
            }
        }
    }
    for i in [1usize, 5, 9] {
        let k = (ctx.seed as usize * 31 + pats.len() * i / 10) % pats.len();
        rep.sample(json!({"pattern": pats[k].0}));
    }
    rep.set("exhaustive", !ctx.over_cap());
    rep.assume("dates are rendered with %Y / %z / %+ only (coarse formats bracketed by two clock reads); inside an argument a literal ')' is written as \\)");
    rep.assume("highlight colours are not compared (documentation and code disagree on them); positions and reset are");
    rep
}

/// `child c09sweep`: the AST sweep in this binary's build profile (used for the release-semantics build)
pub fn child_sweep() -> i32 {
    let ctx = Ctx {
        id: "C09".into(),
        tier: Tier::Quick,
        seed: 0,
        start: std::time::Instant::now(),
        cap: std::time::Duration::from_secs(900),
        verif_dir: "/nonexistent".into(),
        exe: std::env::current_exe().unwrap(),
    };
    let recs = records();
    let mut pats: Vec<(String, Vec<Item>)> = generate(Tier::Thorough).into_iter().flat_map(|(_, g)| g).map(|i| (print(&i), i)).collect();
    pats.sort_by(|a, b| a.0.len().cmp(&b.0.len()).then(a.0.cmp(&b.0)));
    pats.dedup_by(|a, b| a.0 == b.0);
    let mut evals = 0u64;
    let mut seen = std::collections::BTreeSet::new();
    for (pattern, items) in &pats {
        if ctx.over_cap() {
            break;
        }
        let enc = match catch_panic(|| PatternEncoder::new(pattern)) {
            Ok(e) => e,
            Err(_) => continue,
        };
        for (ri, r) in recs.iter().enumerate() {
            evals += 1;
            if let Some((sig, detail)) = check_one(items, pattern, &enc, r) {
                if seen.insert(sig.clone()) {
                    println!("{}", json!({"kind": "violation", "sig": sig, "detail": detail, "case": {"pattern": pattern, "record": ri, "profile": "release"}}));
                }
                break;
            }
        }
    }
    println!("{}", json!({"kind": "stat", "evaluations": evals, "patterns": pats.len(), "debug_build": cfg!(debug_assertions)}));
    0
}

pub fn replay(case: &Value) -> Result<(), String> {
    let pattern = case["pattern"].as_str().ok_or("bad case")?;
    // find the AST by its printed form
    let all: Vec<Vec<Item>> = generate(Tier::Thorough).into_iter().flat_map(|(_, g)| g).collect();
    let items = all.iter().find(|i| print(i) == pattern).ok_or("pattern not in the generator's domain")?;
    let enc = catch_panic(|| PatternEncoder::new(pattern)).map_err(|p| format!("panic in new: {}", p))?;
    for r in records() {
        if let Some((s, d)) = check_one(items, pattern, &enc, &r) {
            return Err(format!("{}: {}", s, d));
        }
    }
    Ok(())
}
