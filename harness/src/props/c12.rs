//! C12 — JSON encoder: one record, one line, exact round trip.
//! E-ENUM over strings from an escape-class alphabet in every text field, optional-field
//! combinations, levels, line values and MDC maps; output parsed by a strict RFC 8259 parser
//! written here (independent of serde_json, which produced the text).

use crate::engine::{capture::Sink, catch_panic, panic_site, Ctx, Report};
use log::{Level, Record};
use log4rs::encode::{json::JsonEncoder, Encode};
use rayon::prelude::*;
use serde_json::{json, Value};
use std::collections::BTreeMap;

// ------------------------------------------------------------------ strict JSON parser
#[derive(Clone, Debug, PartialEq)]
pub enum J {
    Null,
    Bool(bool),
    Num(String),
    Str(String),
    Arr(Vec<J>),
    Obj(Vec<(String, J)>),
}

pub struct P<'a> {
    b: &'a [u8],
    i: usize,
}

impl<'a> P<'a> {
    pub fn parse_document(b: &'a [u8]) -> Result<J, String> {
        let mut p = P { b, i: 0 };
        p.ws();
        let v = p.value()?;
        p.ws();
        if p.i != b.len() {
            return Err(format!("trailing bytes at {}", p.i));
        }
        Ok(v)
    }
    fn ws(&mut self) {
        while self.i < self.b.len() && matches!(self.b[self.i], b' ' | b'\t' | b'\n' | b'\r') {
            self.i += 1;
        }
    }
    fn value(&mut self) -> Result<J, String> {
        match self.b.get(self.i) {
            None => Err("unexpected end".into()),
            Some(b'{') => {
                self.i += 1;
                let mut m = vec![];
                self.ws();
                if self.b.get(self.i) == Some(&b'}') {
                    self.i += 1;
                    return Ok(J::Obj(m));
                }
                loop {
                    self.ws();
                    let k = match self.value()? {
                        J::Str(s) => s,
                        _ => return Err("object key is not a string".into()),
                    };
                    self.ws();
                    if self.b.get(self.i) != Some(&b':') {
                        return Err(format!("expected ':' at {}", self.i));
                    }
                    self.i += 1;
                    self.ws();
                    let v = self.value()?;
                    if m.iter().any(|(k2, _)| *k2 == k) {
                        return Err(format!("duplicate key {:?}", k));
                    }
                    m.push((k, v));
                    self.ws();
                    match self.b.get(self.i) {
                        Some(b',') => self.i += 1,
                        Some(b'}') => {
                            self.i += 1;
                            return Ok(J::Obj(m));
                        }
                        _ => return Err(format!("expected ',' or '}}' at {}", self.i)),
                    }
                }
            }
            Some(b'[') => {
                self.i += 1;
                let mut a = vec![];
                self.ws();
                if self.b.get(self.i) == Some(&b']') {
                    self.i += 1;
                    return Ok(J::Arr(a));
                }
                loop {
                    self.ws();
                    a.push(self.value()?);
                    self.ws();
                    match self.b.get(self.i) {
                        Some(b',') => self.i += 1,
                        Some(b']') => {
                            self.i += 1;
                            return Ok(J::Arr(a));
                        }
                        _ => return Err(format!("expected ',' or ']' at {}", self.i)),
                    }
                }
            }
            Some(b'"') => self.string().map(J::Str),
            Some(b't') => self.lit("true", J::Bool(true)),
            Some(b'f') => self.lit("false", J::Bool(false)),
            Some(b'n') => self.lit("null", J::Null),
            Some(c) if *c == b'-' || c.is_ascii_digit() => {
                let s = self.i;
                if self.b[self.i] == b'-' {
                    self.i += 1;
                }
                let d0 = self.i;
                while self.i < self.b.len() && self.b[self.i].is_ascii_digit() {
                    self.i += 1;
                }
                if self.i == d0 || (self.b[d0] == b'0' && self.i - d0 > 1) {
                    return Err("bad number".into());
                }
                if self.b.get(self.i) == Some(&b'.') {
                    self.i += 1;
                    let f0 = self.i;
                    while self.i < self.b.len() && self.b[self.i].is_ascii_digit() {
                        self.i += 1;
                    }
                    if self.i == f0 {
                        return Err("bad fraction".into());
                    }
                }
                if matches!(self.b.get(self.i), Some(b'e') | Some(b'E')) {
                    self.i += 1;
                    if matches!(self.b.get(self.i), Some(b'+') | Some(b'-')) {
                        self.i += 1;
                    }
                    let e0 = self.i;
                    while self.i < self.b.len() && self.b[self.i].is_ascii_digit() {
                        self.i += 1;
                    }
                    if self.i == e0 {
                        return Err("bad exponent".into());
                    }
                }
                Ok(J::Num(String::from_utf8_lossy(&self.b[s..self.i]).into_owned()))
            }
            Some(c) => Err(format!("unexpected byte {:#x} at {}", c, self.i)),
        }
    }
    fn lit(&mut self, s: &str, v: J) -> Result<J, String> {
        if self.b[self.i..].starts_with(s.as_bytes()) {
            self.i += s.len();
            Ok(v)
        } else {
            Err(format!("bad literal at {}", self.i))
        }
    }
    fn hex4(&mut self) -> Result<u32, String> {
        let h = self.b.get(self.i..self.i + 4).ok_or("short \\u escape")?;
        let s = std::str::from_utf8(h).map_err(|_| "bad \\u escape")?;
        if !s.bytes().all(|c| c.is_ascii_hexdigit()) {
            return Err("bad \\u escape".into());
        }
        self.i += 4;
        u32::from_str_radix(s, 16).map_err(|e| e.to_string())
    }
    fn string(&mut self) -> Result<String, String> {
        self.i += 1;
        let mut out: Vec<u8> = vec![];
        loop {
            let c = *self.b.get(self.i).ok_or("unterminated string")?;
            self.i += 1;
            match c {
                b'"' => break,
                b'\\' => {
                    let e = *self.b.get(self.i).ok_or("unterminated escape")?;
                    self.i += 1;
                    match e {
                        b'"' => out.push(b'"'),
                        b'\\' => out.push(b'\\'),
                        b'/' => out.push(b'/'),
                        b'b' => out.push(8),
                        b'f' => out.push(12),
                        b'n' => out.push(b'\n'),
                        b'r' => out.push(b'\r'),
                        b't' => out.push(b'\t'),
                        b'u' => {
                            let mut cp = self.hex4()?;
                            if (0xD800..0xDC00).contains(&cp) {
                                if self.b.get(self.i..self.i + 2) != Some(b"\\u") {
                                    return Err("lone high surrogate".into());
                                }
                                self.i += 2;
                                let lo = self.hex4()?;
                                if !(0xDC00..0xE000).contains(&lo) {
                                    return Err("bad low surrogate".into());
                                }
                                cp = 0x10000 + ((cp - 0xD800) << 10) + (lo - 0xDC00);
                            } else if (0xDC00..0xE000).contains(&cp) {
                                return Err("lone low surrogate".into());
                            }
                            let ch = char::from_u32(cp).ok_or("bad code point")?;
                            let mut buf = [0u8; 4];
                            out.extend_from_slice(ch.encode_utf8(&mut buf).as_bytes());
                        }
                        other => return Err(format!("bad escape \\{}", other as char)),
                    }
                }
                c if c < 0x20 => return Err(format!("raw control character {:#x} inside a string", c)),
                c => out.push(c),
            }
        }
        String::from_utf8(out).map_err(|_| "string is not valid UTF-8".to_string())
    }
}

// ------------------------------------------------------------------ cases
#[derive(Clone, Debug, Default)]
pub struct Case {
    pub level: usize,
    pub message: String,
    pub target: String,
    pub module: Option<String>,
    pub file: Option<String>,
    pub line: Option<u32>,
    pub thread: Option<String>,
    pub mdc: Vec<(String, String)>,
}

fn case_json(c: &Case) -> Value {
    json!({"level": c.level, "message": c.message, "target": c.target, "module": c.module, "file": c.file, "line": c.line, "thread": c.thread, "mdc": c.mdc})
}

fn case_from_json(v: &Value) -> Option<Case> {
    let s = |v: &Value| v.as_str().map(|x| x.to_owned());
    Some(Case {
        level: v["level"].as_u64()? as usize,
        message: s(&v["message"])?,
        target: s(&v["target"])?,
        module: s(&v["module"]),
        file: s(&v["file"]),
        line: v["line"].as_u64().map(|l| l as u32),
        thread: s(&v["thread"]),
        mdc: v["mdc"].as_array()?.iter().filter_map(|e| Some((e[0].as_str()?.to_owned(), e[1].as_str()?.to_owned()))).collect(),
    })
}

const LV: [Level; 5] = [Level::Error, Level::Warn, Level::Info, Level::Debug, Level::Trace];

fn encode_here(c: &Case) -> Result<(Vec<u8>, Option<String>, chrono::DateTime<chrono::Utc>, chrono::DateTime<chrono::Utc>), String> {
    log_mdc::clear();
    for (k, v) in &c.mdc {
        log_mdc::insert(k.clone(), v.clone());
    }
    let mut sink = Sink::new(None);
    let before = chrono::Utc::now();
    let r = catch_panic(|| {
        let mut b = Record::builder();
        b.level(LV[c.level]).target(&c.target).module_path(c.module.as_deref()).file(c.file.as_deref()).line(c.line);
        JsonEncoder::new().encode(&mut sink, &b.args(format_args!("{}", c.message)).build())
    });
    let after = chrono::Utc::now();
    log_mdc::clear();
    match r {
        Err(p) => Err(format!("panic:{}", p)),
        Ok(Err(e)) => Err(format!("error:{}", e)),
        Ok(Ok(())) => Ok((sink.buf, std::thread::current().name().map(|s| s.to_owned()), before, after)),
    }
}

pub fn check(c: &Case) -> Option<(String, String)> {
    let res = match &c.thread {
        Some(name) => {
            let c2 = c.clone();
            std::thread::Builder::new().name(name.clone()).spawn(move || encode_here(&c2)).ok()?.join().unwrap_or_else(|_| Err("panic:thread".into()))
        }
        None => {
            let c2 = c.clone();
            std::thread::Builder::new().spawn(move || encode_here(&c2)).ok()?.join().unwrap_or_else(|_| Err("panic:thread".into()))
        }
    };
    let (buf, thread_name, before, after) = match res {
        Ok(x) => x,
        Err(e) => {
            let sig = if let Some(p) = e.strip_prefix("panic:") { format!("panic:{}", panic_site(p)) } else { "encode-error".into() };
            return Some((sig, e));
        }
    };
    let shown = String::from_utf8_lossy(&buf).into_owned();
    if buf.last() != Some(&b'\n') {
        return Some(("line:no-trailing-newline".into(), shown));
    }
    let body = &buf[..buf.len() - 1];
    if let Some(pos) = body.iter().position(|b| *b < 0x20) {
        let kind = if body[pos] == b'\n' || body[pos] == b'\r' { "line:raw-newline-inside" } else { "line:raw-control-character" };
        return Some((kind.into(), format!("byte {:#x} at offset {} of {:?}", body[pos], pos, shown)));
    }
    // control characters beyond ASCII: DEL, the C1 block (NEL U+0085 is a newline in its own right), and the
    // Unicode line / paragraph separators, which break a line for every Unicode-aware reader
    if let Some((pos, ch)) = shown.char_indices().find(|(i, c)| *i < body.len() && (c.is_control() || *c == '\u{2028}' || *c == '\u{2029}')) {
        let kind = if matches!(ch, '\u{85}' | '\u{2028}' | '\u{2029}') { "line:raw-newline-inside" } else { "line:raw-control-character" };
        return Some((kind.into(), format!("U+{:04X} at offset {} of {:?}", ch as u32, pos, shown)));
    }
    let doc = match P::parse_document(body) {
        Ok(J::Obj(m)) => m,
        Ok(other) => return Some(("json:not-an-object".into(), format!("{:?}", other))),
        Err(e) => return Some(("json:does-not-parse".into(), format!("{} in {:?}", e, shown))),
    };
    let get = |k: &str| doc.iter().find(|(k2, _)| k2 == k).map(|(_, v)| v.clone());
    let want_str = |k: &str, want: &str| -> Option<(String, String)> {
        match get(k) {
            Some(J::Str(s)) if s == want => None,
            other => Some((format!("roundtrip:{}", k), format!("field {:?} parses back as {:?}, the record has {:?}; line {:?}", k, other, want, shown))),
        }
    };
    if let Some(m) = want_str("message", &c.message) {
        return Some(m);
    }
    if let Some(m) = want_str("target", &c.target) {
        return Some(m);
    }
    match get("level") {
        Some(J::Str(s)) if s.eq_ignore_ascii_case(&LV[c.level].to_string()) => {}
        other => return Some(("roundtrip:level".into(), format!("level parses back as {:?}, record has {}", other, LV[c.level]))),
    }
    for (k, want) in [("module_path", &c.module), ("file", &c.file)] {
        match (get(k), want) {
            (None, None) => {}
            (Some(J::Str(s)), Some(w)) if s == *w => {}
            (Some(v), None) => return Some((format!("absent-field-emitted:{}", k), format!("{:?} is absent in the record but emitted as {:?}", k, v))),
            (got, Some(w)) => return Some((format!("roundtrip:{}", k), format!("{:?} parses back as {:?}, record has {:?}", k, got, w))),
        }
    }
    match (get("line"), c.line) {
        (None, None) => {}
        (Some(J::Num(n)), Some(l)) if n == l.to_string() => {}
        (Some(v), None) => return Some(("absent-field-emitted:line".into(), format!("line is absent in the record but emitted as {:?}", v))),
        (got, Some(l)) => return Some(("roundtrip:line".into(), format!("line parses back as {:?}, record has {}", got, l))),
    }
    match (get("thread"), &thread_name) {
        (Some(J::Null), None) | (None, None) => {}
        (Some(J::Str(s)), Some(w)) if s == *w => {}
        (got, w) => return Some(("roundtrip:thread".into(), format!("thread parses back as {:?}, the thread's name is {:?}", got, w))),
    }
    match get("mdc") {
        Some(J::Obj(m)) => {
            let got: BTreeMap<String, J> = m.into_iter().collect();
            let want: BTreeMap<String, J> = c.mdc.iter().map(|(k, v)| (k.clone(), J::Str(v.clone()))).collect();
            if got != want {
                return Some(("roundtrip:mdc".into(), format!("mdc parses back as {:?}, the MDC holds {:?}", got, want)));
            }
        }
        other => return Some(("roundtrip:mdc".into(), format!("mdc is {:?}, expected an object", other))),
    }
    match get("time") {
        Some(J::Str(t)) => match chrono::DateTime::parse_from_rfc3339(&t) {
            Ok(t) => {
                let tu = t.with_timezone(&chrono::Utc);
                if tu < before - chrono::Duration::milliseconds(1) || tu > after + chrono::Duration::milliseconds(1) {
                    return Some(("time:not-current".into(), format!("time {} outside [{}, {}]", tu, before, after)));
                }
            }
            Err(e) => return Some(("time:not-rfc3339".into(), format!("{:?}: {}", t, e))),
        },
        other => return Some(("time:missing".into(), format!("{:?}", other))),
    }
    None
}

struct Boom;
impl std::fmt::Display for Boom {
    fn fmt(&self, f: &mut std::fmt::Formatter<'_>) -> std::fmt::Result {
        f.write_str("par")?;
        panic!("Display impl of a log argument panics")
    }
}

/// Histories on one thread: an encode that does not finish (the sink fails at its k-th write, or a
/// Display argument panics) followed by a normal encode; the second line must be a single clean object.
fn failure_histories(rep: &mut Report) {
    let enc = JsonEncoder::new();
    let rec = |sink: &mut Sink, msg: &str| {
        enc.encode(sink, &Record::builder().level(Level::Info).target("t").args(format_args!("{}", msg)).build())
    };
    // how many writes does a normal encode need?
    let mut probe = Sink::new(Some(7));
    let _ = rec(&mut probe, "first \"record\"");
    let writes = probe.writes;
    let mut n = 0u64;
    for limit in [None, Some(7usize)] {
        for k in 0..=writes {
            for second_kind in 0..2 {
                n += 1;
                let res = std::thread::spawn(move || {
                    let enc = JsonEncoder::new();
                    let mut bad = Sink::failing(limit, k);
                    let first = catch_panic(|| enc.encode(&mut bad, &Record::builder().level(Level::Info).target("t").args(format_args!("first \"record\"")).build()));
                    if second_kind == 1 {
                        // additionally an encode interrupted by a panicking Display argument
                        let mut s2 = Sink::new(limit);
                        let _ = catch_panic(|| enc.encode(&mut s2, &Record::builder().level(Level::Warn).target("t").args(format_args!("x{}", Boom)).build()));
                    }
                    let mut good = Sink::new(limit);
                    let second = catch_panic(|| enc.encode(&mut good, &Record::builder().level(Level::Error).target("t2").args(format_args!("second")).build()));
                    (first.map(|r| r.is_ok()), second.map(|r| r.map_err(|e| e.to_string())), good.buf)
                })
                .join();
                let case = json!({"history": ["encode into a sink whose write #k fails", if second_kind == 1 { "encode with a panicking Display argument" } else { "-" }, "encode normally"], "k": k, "sink_limit": limit});
                match res {
                    Err(_) => rep.violation("failure-history:thread-died", "worker thread died", case),
                    Ok((_, Err(p), _)) => rep.violation(format!("failure-history:panic:{}", panic_site(&p)), p, case),
                    Ok((_, Ok(Err(e)), _)) => rep.violation("failure-history:second-encode-failed", e, case),
                    Ok((_, Ok(Ok(())), buf)) => {
                        let shown = String::from_utf8_lossy(&buf).into_owned();
                        let one_line = buf.last() == Some(&b'\n') && !buf[..buf.len() - 1].iter().any(|b| *b < 0x20);
                        let parsed = if one_line { P::parse_document(&buf[..buf.len() - 1]) } else { Err("not one line".into()) };
                        match parsed {
                            Ok(J::Obj(m)) if m.iter().any(|(k, v)| k == "message" && *v == J::Str("second".into())) => {}
                            other => rep.violation(
                                "failure-history:line-after-failed-encode",
                                format!("after an unfinished encode the next record was written as {:?} ({:?})", shown, other.map(|_| "wrong object")),
                                case,
                            ),
                        }
                    }
                }
            }
        }
    }
    rep.add("evaluations", n);
    rep.add("failure_histories", n);
}

fn strings(alpha: &[&str], max: usize) -> Vec<String> {
    let mut out = vec![String::new()];
    let mut fr = vec![String::new()];
    for _ in 0..max {
        let mut nx = vec![];
        for s in &fr {
            for a in alpha {
                nx.push(format!("{}{}", s, a));
            }
        }
        out.extend(nx.iter().cloned());
        fr = nx;
    }
    out
}

pub fn run(ctx: &Ctx) -> Report {
    let mut rep = Report::new("model_checking");
    rep.set(
        "rule",
        "E-ENUM: every string up to the length bound over {a,\",\\,/,LF,CR,TAB,NUL,U+001F,DEL,é,U+2028,😀,U+FFFF,\\u0008,\\u000c} in one field at a time \
         (message, target, module path, file, thread name, MDC key, MDC value), every pair of fields with strings of length <= 1, all 8 present/absent \
         combinations x 5 levels x line {0,1,u32::MAX}, MDC maps of 0-2 entries; the line must be one strict-JSON object + one newline and parse back \
         exactly; plus two/three-step histories on one thread in which an encode is cut short (sink failing at every write position, panicking Display \
         argument) before a normal encode. Non-trivial = case with at least one character that needs escaping or an absent optional field",
    );
    let alpha = ["a", "\"", "\\", "/", "\n", "\r", "\t", "\0", "\u{1f}", "\u{7f}", "\u{85}", "é", "\u{2028}", "😀", "\u{ffff}", "\u{8}", "\u{c}"];
    let maxlen = ctx.tier.pick(3, 4);
    let strs = strings(&alpha, maxlen);
    let base = Case { level: 2, message: "m".into(), target: "t".into(), module: Some("mp".into()), file: Some("f".into()), line: Some(1), thread: Some("th".into()), mdc: vec![] };
    let mut cases: Vec<Case> = vec![];
    let fields = ["message", "target", "module", "file", "thread", "mdc_key", "mdc_value"];
    let set = |c: &mut Case, f: &str, s: &str| match f {
        "message" => c.message = s.to_owned(),
        "target" => c.target = s.to_owned(),
        "module" => c.module = Some(s.to_owned()),
        "file" => c.file = Some(s.to_owned()),
        "thread" => c.thread = Some(s.replace('\0', "\u{1}")), // std forbids NUL in thread names
        "mdc_key" => match c.mdc.first_mut() {
            Some(e) => e.0 = s.to_owned(),
            None => c.mdc.push((s.to_owned(), "v".into())),
        },
        "mdc_value" => match c.mdc.first_mut() {
            Some(e) => e.1 = s.to_owned(),
            None => c.mdc.push(("k".into(), s.to_owned())),
        },
        _ => unreachable!(),
    };
    for f in fields {
        for s in &strs {
            let mut c = base.clone();
            set(&mut c, f, s);
            cases.push(c);
        }
    }
    // long runs (buffer-size classes of any internal coalescing: 255/256/257/1023/1024/1025/5000 bytes), plain and with an escape at the end
    for f in fields {
        for n in [255usize, 256, 257, 1023, 1024, 1025, 5000] {
            for tail in ["", "\"", "é"] {
                let mut c = base.clone();
                set(&mut c, f, &format!("{}{}", "m".repeat(n), tail));
                cases.push(c);
            }
        }
    }
    let short = strings(&alpha, 1);
    for (i, f1) in fields.iter().enumerate() {
        for f2 in &fields[i + 1..] {
            for s1 in &short {
                for s2 in &short {
                    let mut c = base.clone();
                    set(&mut c, f1, s1);
                    set(&mut c, f2, s2);
                    cases.push(c);
                }
            }
        }
    }
    for level in 0..5 {
        for bits in 0..8u8 {
            for line in [0u32, 1, u32::MAX] {
                for named in [true, false] {
                    let mut c = base.clone();
                    c.level = level;
                    c.module = if bits & 1 != 0 { Some("a\"b".into()) } else { None };
                    c.file = if bits & 2 != 0 { Some("dir\\f.rs".into()) } else { None };
                    c.line = if bits & 4 != 0 { Some(line) } else { None };
                    c.thread = if named { Some("w\n1".into()) } else { None };
                    cases.push(c);
                }
            }
        }
    }
    for n in 0..=2usize {
        for s in &short {
            let mut c = base.clone();
            c.mdc = (0..n).map(|i| (format!("k{}{}", i, s), format!("{}v{}", s, i))).collect();
            cases.push(c);
        }
    }
    let nontrivial = cases
        .iter()
        .filter(|c| {
            let esc = |s: &str| s.chars().any(|ch| (ch as u32) < 0x20 || ch == '"' || ch == '\\');
            esc(&c.message) || esc(&c.target) || c.module.as_deref().map_or(true, esc) || c.file.as_deref().map_or(true, esc) || c.line.is_none() || c.thread.as_deref().map_or(true, esc) || c.mdc.iter().any(|(k, v)| esc(k) || esc(v))
        })
        .count();
    let bad: Vec<(usize, (String, String))> = cases.par_iter().enumerate().filter_map(|(i, c)| check(c).map(|m| (i, m))).collect();
    rep.set("evaluations", cases.len() as u64);
    rep.set("distinct_nontrivial", nontrivial as u64);
    rep.set("strings_per_field", strs.len() as u64);
    for (i, (s, d)) in bad {
        rep.violation(s, d, case_json(&cases[i]));
    }
    failure_histories(&mut rep);
    rep.sample(case_json(&cases[(ctx.seed as usize * 17 + cases.len() / 3) % cases.len()]));
    rep.sample(case_json(&cases[cases.len() - 7]));
    rep.assume("thread names cannot contain NUL (std restriction); NUL is replaced by U+0001 in that field only");
    rep
}

pub fn replay(case: &Value) -> Result<(), String> {
    if case.get("history").is_some() {
        let mut rep = Report::new("model_checking");
        failure_histories(&mut rep);
        return match rep.violations().first() {
            Some(v) => Err(format!("{}: {}", v.signature, v.detail)),
            None => Ok(()),
        };
    }
    let c = case_from_json(case).ok_or("bad case")?;
    match check(&c) {
        None => Ok(()),
        Some((s, d)) => Err(format!("{}: {}", s, d)),
    }
}
