//! C18 — console output obeys tty_only and the colour policy; ANSI sequences are well-formed.
//! E-PROC: the complete matrix NO_COLOR x CLICOLOR x CLICOLOR_FORCE x {pty,pipe} x {stdout,stderr}
//! x tty_only x {builder, config file}; in-process E-ENUM over all 243 styles of AnsiWriter.

use crate::engine::{catch_panic, panic_site, Ctx, Report};
use log::{Level, Log, Record};
use log4rs::{
    append::{
        console::{ConsoleAppender, Target},
        Append,
    },
    encode::{pattern::PatternEncoder, writer::ansi::AnsiWriter, Color, Style, Write as EncWrite},
};
use rayon::prelude::*;
use serde_json::{json, Value};
use std::{
    fs::File,
    io::Read,
    os::unix::io::{FromRawFd, RawFd},
    process::{Command, Stdio},
};

const PATTERN: &str = "{h({l})} {m}{n}{h(<{h({l})}>)}|{h({l}{m}):.4}|{h({l}):<7}|{h({l}):>7}|{n}";
const LEVELS: [Level; 5] = [Level::Error, Level::Warn, Level::Info, Level::Debug, Level::Trace];

fn plain() -> String {
    let mut s = String::new();
    for l in LEVELS {
        let cut: String = format!("{}msg-{}", l, l).chars().take(4).collect();
        s.push_str(&format!("{} msg-{}\n<{}>|{}|{:<7}|{:>7}|\n", l, l, l, cut, l.to_string(), l.to_string()));
    }
    s
}

/// child: args = target, tty_only(0|1|absent), build (builder|file)
pub fn child(args: &[String]) -> i32 {
    let target = args[0].as_str();
    let tty_only = args[1].as_str();
    let build = args[2].as_str();
    let log_all = |app: &dyn Fn(&Record)| {
        for l in LEVELS {
            let msg = format!("msg-{}", l);
            app(&Record::builder().level(l).target("t").args(format_args!("{}", msg)).build());
        }
    };
    if target == "abrupt" {
        // the process ends without running the runtime's exit handlers: whatever an append that has returned left in
        // a buffer of the process is lost
        let app = ConsoleAppender::builder().encoder(Box::new(PatternEncoder::new("{m}"))).target(Target::Stdout).build();
        for m in ["a\nb", "tail"] {
            let _ = app.append(&Record::builder().level(Level::Info).target("t").args(format_args!("{}", m)).build());
        }
        unsafe { libc::_exit(0) }
    }
    match build {
        "builder" | "builder-second" => {
            if build == "builder-second" {
                // another console appender, for the *other* stream, was built (and used) first in this process
                let other = ConsoleAppender::builder().encoder(Box::new(PatternEncoder::new(""))).target(if target == "stderr" { Target::Stdout } else { Target::Stderr }).tty_only(true).build();
                let _ = other.append(&Record::builder().level(Level::Info).target("t").args(format_args!("")).build());
            }
            let mut b = ConsoleAppender::builder().encoder(Box::new(PatternEncoder::new(PATTERN))).target(if target == "stderr" { Target::Stderr } else { Target::Stdout });
            if tty_only != "absent" {
                b = b.tty_only(tty_only == "1");
            }
            let app = b.build();
            log_all(&|r| {
                let _ = app.append(r);
            });
        }
        _ => {
            let dir = std::env::temp_dir().join(format!("c18-{}", std::process::id()));
            let _ = std::fs::create_dir_all(&dir);
            let path = dir.join("c.yaml");
            let mut y = format!("appenders:\n  con:\n    kind: console\n    encoder:\n      pattern: \"{}\"\n", PATTERN);
            if build != "file-notarget" {
                y.push_str(&format!("    target: {}\n", target));
            }
            if tty_only != "absent" {
                y.push_str(&format!("    tty_only: {}\n", tty_only == "1"));
            }
            y.push_str("root:\n  level: trace\n  appenders: [con]\n");
            std::fs::write(&path, y).unwrap();
            let cfg = log4rs::config::load_config_file(&path, Default::default()).expect("load");
            let _ = std::fs::remove_dir_all(&dir);
            let logger = log4rs::Logger::new(cfg);
            log_all(&|r| logger.log(r));
        }
    }
    0
}

fn open_pty() -> Option<(RawFd, RawFd)> {
    let mut master: libc::c_int = -1;
    let mut slave: libc::c_int = -1;
    let r = unsafe { libc::openpty(&mut master, &mut slave, std::ptr::null_mut(), std::ptr::null(), std::ptr::null()) };
    if r != 0 {
        return None;
    }
    unsafe {
        // raw mode: no ONLCR translation of "\n" into "\r\n"
        let mut t: libc::termios = std::mem::zeroed();
        libc::tcgetattr(slave, &mut t);
        libc::cfmakeraw(&mut t);
        libc::tcsetattr(slave, libc::TCSANOW, &t);
        let fl = libc::fcntl(master, libc::F_GETFL);
        libc::fcntl(master, libc::F_SETFL, fl | libc::O_NONBLOCK);
    }
    Some((master, slave))
}

#[derive(Clone, Debug)]
pub struct Cell {
    pub no_color: Option<&'static str>,
    pub clicolor: Option<&'static str>,
    pub clicolor_force: Option<&'static str>,
    pub target: &'static str,
    pub target_is_tty: bool,
    pub tty_only: &'static str,
    pub build: &'static str,
}

fn cell_json(c: &Cell) -> Value {
    json!({"NO_COLOR": c.no_color, "CLICOLOR": c.clicolor, "CLICOLOR_FORCE": c.clicolor_force, "target": c.target, "target_is_tty": c.target_is_tty, "tty_only": c.tty_only, "build": c.build})
}

/// runs one child; returns (bytes on stdout, bytes on stderr)
fn run_cell(exe: &std::path::Path, c: &Cell) -> Result<(Vec<u8>, Vec<u8>), String> {
    // the target stream is a pty or a pipe; the other stream is of the opposite kind
    let stdout_tty = (c.target == "stdout") == c.target_is_tty;
    let stderr_tty = !stdout_tty;
    let mut cmd = Command::new(exe);
    cmd.arg("child").arg("c18").arg(c.target).arg(c.tty_only).arg(c.build);
    cmd.env_clear();
    cmd.env("PATH", std::env::var("PATH").unwrap_or_default());
    cmd.env("TMPDIR", "/dev/shm");
    for (k, v) in [("NO_COLOR", c.no_color), ("CLICOLOR", c.clicolor), ("CLICOLOR_FORCE", c.clicolor_force)] {
        if let Some(v) = v {
            cmd.env(k, v);
        }
    }
    cmd.stdin(Stdio::null());
    let mut masters: Vec<(bool, RawFd)> = vec![];
    for (is_out, tty) in [(true, stdout_tty), (false, stderr_tty)] {
        if tty {
            let (m, s) = open_pty().ok_or("openpty failed")?;
            let f = unsafe { File::from_raw_fd(s) };
            if is_out {
                cmd.stdout(Stdio::from(f));
            } else {
                cmd.stderr(Stdio::from(f));
            }
            masters.push((is_out, m));
        } else if is_out {
            cmd.stdout(Stdio::piped());
        } else {
            cmd.stderr(Stdio::piped());
        }
    }
    let mut child = cmd.spawn().map_err(|e| e.to_string())?;
    drop(cmd); // closes our copies of the slave ends
    let mut out = vec![];
    let mut err = vec![];
    let po = child.stdout.take();
    let pe = child.stderr.take();
    let status = child.wait().map_err(|e| e.to_string())?;
    if let Some(mut p) = po {
        let _ = p.read_to_end(&mut out);
    }
    if let Some(mut p) = pe {
        let _ = p.read_to_end(&mut err);
    }
    for (is_out, m) in masters {
        let mut f = unsafe { File::from_raw_fd(m) };
        let mut buf = [0u8; 4096];
        loop {
            match f.read(&mut buf) {
                Ok(0) => break,
                Ok(n) => {
                    if is_out {
                        out.extend_from_slice(&buf[..n]);
                    } else {
                        err.extend_from_slice(&buf[..n]);
                    }
                }
                Err(_) => break,
            }
        }
    }
    if !status.success() {
        return Err(format!("child exited with {:?}: {}", status.code(), String::from_utf8_lossy(&err)));
    }
    Ok((out, err))
}

fn is_set(v: Option<&str>) -> bool {
    matches!(v, Some(x) if x != "0")
}

/// splits bytes into (text without escapes, escape sequences); None if an ESC is not followed by a complete CSI ... m
fn strip(b: &[u8]) -> Option<(Vec<u8>, Vec<Vec<u8>>)> {
    let mut text = vec![];
    let mut seqs = vec![];
    let mut i = 0;
    while i < b.len() {
        if b[i] == 0x1b {
            let start = i;
            if b.get(i + 1) != Some(&b'[') {
                return None;
            }
            i += 2;
            while i < b.len() && (b[i].is_ascii_digit() || b[i] == b';') {
                i += 1;
            }
            if b.get(i) != Some(&b'm') {
                return None;
            }
            i += 1;
            seqs.push(b[start..i].to_vec());
        } else {
            text.push(b[i]);
            i += 1;
        }
    }
    Some((text, seqs))
}

/// decodes ESC [ 0 (;3c)? (;4c)? (;1|;22)? m  into (text colour, background colour, intense)
/// Meaning of one SGR sequence over the attributes `Style` can request, or None if it is not a well-formed
/// SGR sequence, uses parameters outside that vocabulary, or leaves an attribute to whatever was in force
/// before (then it would not encode *exactly* the request).  Parameters are interpreted in order, as a
/// terminal does (0 resets; 30-37/39 text colour; 40-47/49 background; 1 intense; 22 normal), so their order
/// and a leading reset are the library's choice.  Normal intensity is reported as None whether it was
/// spelled "22" or left at the reset default.
fn decode_sgr(seq: &[u8]) -> Option<(Option<u8>, Option<u8>, Option<bool>)> {
    let s = std::str::from_utf8(seq).ok()?;
    let body = s.strip_prefix("\u{1b}[")?.strip_suffix('m')?;
    // None = inherited from before the sequence
    let (mut text, mut bg, mut bold): (Option<Option<u8>>, Option<Option<u8>>, Option<bool>) = (None, None, None);
    for p in body.split(';') {
        if !p.bytes().all(|b| b.is_ascii_digit()) || p.len() > 3 {
            return None;
        }
        let n: u32 = if p.is_empty() { 0 } else { p.parse().ok()? };
        match n {
            0 => {
                text = Some(None);
                bg = Some(None);
                bold = Some(false);
            }
            30..=37 => text = Some(Some((n - 30) as u8)),
            39 => text = Some(None),
            40..=47 => bg = Some(Some((n - 40) as u8)),
            49 => bg = Some(None),
            1 => bold = Some(true),
            22 => bold = Some(false),
            _ => return None,
        }
    }
    Some((text?, bg?, if bold? { Some(true) } else { None }))
}

fn judge(c: &Cell, out: &[u8], err: &[u8]) -> Option<(String, String)> {
    let (target_bytes, other_bytes) = if c.target == "stdout" { (out, err) } else { (err, out) };
    if !other_bytes.is_empty() {
        return Some(("output-on-the-wrong-stream".into(), format!("{} bytes appeared on the stream that was not chosen: {:?}", other_bytes.len(), String::from_utf8_lossy(other_bytes))));
    }
    let restricted = c.tty_only == "1";
    let should_write = !restricted || c.target_is_tty;
    if !should_write {
        if !target_bytes.is_empty() {
            return Some(("tty_only:wrote-to-a-non-terminal".into(), format!("tty_only appender wrote {} bytes although its target is not a terminal", target_bytes.len())));
        }
        return None;
    }
    if target_bytes.is_empty() {
        let sig = if restricted { "tty_only:silent-on-a-terminal" } else { "unrestricted-appender-silent" };
        return Some((sig.into(), "nothing was written although the appender must write here".into()));
    }
    let colour = if is_set(c.no_color) {
        false
    } else if is_set(c.clicolor_force) {
        true
    } else if c.clicolor == Some("0") {
        false
    } else {
        c.target_is_tty
    };
    let (text, seqs) = match strip(target_bytes) {
        Some(x) => x,
        None => return Some(("ansi:malformed-escape".into(), format!("{:?}", String::from_utf8_lossy(target_bytes)))),
    };
    if text != plain().as_bytes() {
        return Some(("text-differs-from-plain-rendering".into(), format!("without escapes the output is {:?}, expected {:?}", String::from_utf8_lossy(&text), plain())));
    }
    if !colour {
        if !seqs.is_empty() {
            return Some(("colour:escapes-although-disabled".into(), format!("{} escape sequences although colour is disabled by the environment", seqs.len())));
        }
        return None;
    }
    if seqs.is_empty() {
        return Some(("colour:no-escapes-although-enabled".into(), "colour is enabled but no escape sequence was written".into()));
    }
    for s in &seqs {
        if decode_sgr(s).is_none() {
            return Some(("ansi:malformed-escape".into(), format!("{:?}", String::from_utf8_lossy(s))));
        }
    }
    // every highlighted group is followed by a reset: walking the stream, a style that was set must be reset before the line ends
    let mut styled = false;
    let mut i = 0;
    let b = target_bytes;
    while i < b.len() {
        if b[i] == 0x1b {
            let j = i + b[i..].iter().position(|x| *x == b'm').unwrap_or(0) + 1;
            let d = decode_sgr(&b[i..j]).unwrap();
            styled = d != (None, None, None);
            i = j;
        } else {
            if b[i] == b'\n' && styled {
                return Some(("highlight:no-reset-after-group".into(), format!("a line ends while a style is still active: {:?}", String::from_utf8_lossy(target_bytes))));
            }
            i += 1;
        }
    }
    // Which levels the library styles is its own choice; what is fixed: a level is styled in every group or in
    // none, and a styled group carries exactly one style and one reset.  Line 1 has one group, line 2 has the
    // nested pair and three groups with width specs (five groups).
    let lines: Vec<&[u8]> = target_bytes.split(|x| *x == b'\n').collect();
    for (k, l) in LEVELS.iter().enumerate() {
        let count = |li: usize| lines.get(li).copied().unwrap_or(&[]).iter().filter(|b| **b == 0x1b).count();
        let single = count(2 * k);
        if single != 0 && single != 2 {
            return Some(("highlight:style-presence".into(), format!("level {}: the single highlighted group carries {} escape sequences, expected none or one style and one reset: {:?}", l, single, String::from_utf8_lossy(lines.get(2 * k).copied().unwrap_or(&[])))));
        }
        let five = count(2 * k + 1);
        if five != 5 * single {
            return Some(("highlight:style-presence".into(), format!("level {}: a single group carries {} escape sequences but the line with five groups carries {} (expected {}): {:?}", l, single, five, 5 * single, String::from_utf8_lossy(lines.get(2 * k + 1).copied().unwrap_or(&[])))));
        }
    }
    None
}

fn colors() -> Vec<Option<Color>> {
    vec![None, Some(Color::Black), Some(Color::Red), Some(Color::Green), Some(Color::Yellow), Some(Color::Blue), Some(Color::Magenta), Some(Color::Cyan), Some(Color::White)]
}

fn color_num(c: Color) -> u8 {
    match c {
        Color::Black => 0,
        Color::Red => 1,
        Color::Green => 2,
        Color::Yellow => 3,
        Color::Blue => 4,
        Color::Magenta => 5,
        Color::Cyan => 6,
        Color::White => 7,
    }
}

fn styles() -> Vec<Style> {
    let mut v = vec![];
    for t in colors() {
        for b in colors() {
            for i in [None, Some(true), Some(false)] {
                let mut s = Style::new();
                if let Some(t) = t {
                    s.text(t);
                }
                if let Some(b) = b {
                    s.background(b);
                }
                if let Some(i) = i {
                    s.intense(i);
                }
                v.push(s);
            }
        }
    }
    v
}

fn style_json(s: &Style) -> Value {
    json!({"text": s.text.map(|c| format!("{:?}", c)), "background": s.background.map(|c| format!("{:?}", c)), "intense": s.intense})
}

fn ansi_enum(rep: &mut Report) {
    let all = styles();
    let mut n = 0u64;
    let check_one = |s: &Style| -> Option<(String, String)> {
        let r = catch_panic(|| {
            let mut w = AnsiWriter(Vec::new());
            w.set_style(s).map(|_| w.0)
        });
        match r {
            Err(p) => Some((format!("ansi:panic:{}", panic_site(&p)), p)),
            Ok(Err(e)) => Some(("ansi:error".into(), e.to_string())),
            Ok(Ok(bytes)) => match decode_sgr(&bytes) {
                None => Some(("ansi:malformed-escape".into(), format!("{:?}", String::from_utf8_lossy(&bytes)))),
                Some(d) => {
                    let want = (s.text.map(color_num), s.background.map(color_num), if s.intense == Some(true) { Some(true) } else { None });
                    if d != want {
                        Some(("ansi:wrong-attributes".into(), format!("sequence {:?} decodes to {:?}, requested {:?}", String::from_utf8_lossy(&bytes), d, want)))
                    } else {
                        None
                    }
                }
            },
        }
    };
    for s in &all {
        n += 1;
        if let Some((sig, d)) = check_one(s) {
            rep.violation(sig, format!("style {}: {}", style_json(s), d), json!({"style": style_json(s)}));
        }
    }
    // every pair of consecutive styles on one writer, with text in between
    let ok_styles: Vec<&Style> = all.iter().filter(|s| check_one(s).is_none()).collect();
    let bad: Vec<(usize, usize, String)> = (0..ok_styles.len())
        .into_par_iter()
        .flat_map_iter(|i| {
            let mut v = vec![];
            for j in 0..ok_styles.len() {
                let r = catch_panic(|| {
                    use std::io::Write;
                    let mut w = AnsiWriter(Vec::new());
                    w.set_style(ok_styles[i]).unwrap();
                    w.write_all(b"x").unwrap();
                    w.set_style(ok_styles[j]).unwrap();
                    w.write_all(b"y").unwrap();
                    w.0
                });
                let good = match &r {
                    Ok(bytes) => match strip(bytes) {
                        Some((text, seqs)) => text == b"xy" && seqs.len() == 2 && seqs.iter().all(|q| decode_sgr(q).is_some()),
                        None => false,
                    },
                    Err(_) => false,
                };
                if !good {
                    v.push((i, j, format!("{:?}", r.map(|b| String::from_utf8_lossy(&b).into_owned()))));
                }
            }
            v
        })
        .collect();
    n += (ok_styles.len() * ok_styles.len()) as u64;
    for (i, j, d) in bad {
        rep.violation("ansi:consecutive-styles", d, json!({"first": style_json(ok_styles[i]), "second": style_json(ok_styles[j])}));
    }
    rep.add("evaluations", n);
    rep.set("ansi_styles", all.len() as u64);
}

pub fn cells() -> Vec<Cell> {
    let vals: [Option<&'static str>; 3] = [None, Some("0"), Some("1")];
    let mut v = vec![];
    for no_color in vals {
        for clicolor in vals {
            for clicolor_force in vals {
                for target in ["stdout", "stderr"] {
                    for target_is_tty in [true, false] {
                        for (tty_only, build) in [("0", "builder"), ("1", "builder"), ("1", "file"), ("absent", "file"), ("1", "file-notarget"), ("0", "file-notarget"), ("1", "builder-second")] {
                            // without a `target` key the appender writes to stdout
                            if build == "file-notarget" && target != "stdout" {
                                continue;
                            }
                            v.push(Cell { no_color, clicolor, clicolor_force, target, target_is_tty, tty_only, build });
                        }
                    }
                }
            }
        }
    }
    v
}

pub fn run(ctx: &Ctx) -> Report {
    let mut rep = Report::new("model_checking");
    rep.set(
        "rule",
        "E-PROC: complete matrix NO_COLOR x CLICOLOR x CLICOLOR_FORCE in {unset,'0','1'}^3 x target stdout/stderr x target stream pty/pipe (the other stream is of the opposite kind) x tty_only on/off/absent x \
         built by builder / from a config file; every child logs all five levels through a pattern with highlight and nested highlight; bytes of both streams are judged: chosen stream only, tty_only => written iff \
         terminal, escapes iff colour enabled by the stated precedence, every escape a well-formed SGR, reset before the line ends, stripped text == plain rendering. In-process: AnsiWriter over Vec<u8> for all \
         243 styles and all pairs of consecutive styles. Non-trivial = matrix cell with a restricted appender or a colour variable set",
    );
    let cs = cells();
    let results: Vec<(usize, Result<(Vec<u8>, Vec<u8>), String>)> = cs.par_iter().enumerate().map(|(i, c)| (i, run_cell(&ctx.exe, c))).collect();
    let mut outcomes = std::collections::BTreeMap::new();
    for (i, r) in results {
        let c = &cs[i];
        match r {
            Err(e) => {
                eprintln!("MACHINERY FAILURE: console child failed for {}: {}", cell_json(c), e);
                std::process::exit(2);
            }
            Ok((out, err)) => {
                let tb = if c.target == "stdout" { &out } else { &err };
                let label = format!("{}{}", if tb.is_empty() { "silent" } else { "written" }, if tb.contains(&0x1b) { "+colour" } else { "" });
                *outcomes.entry(label).or_insert(0u64) += 1;
                if let Some((sig, detail)) = judge(c, &out, &err) {
                    rep.violation(sig, format!("{}: {}", cell_json(c), detail), cell_json(c));
                }
            }
        }
    }
    // what an append that has returned wrote is on the stream even if the process then ends abruptly
    let o = crate::engine::proc::run_child(&ctx.exe, "c18", &["abrupt".to_string(), "0".to_string(), "builder".to_string()], &[], std::time::Duration::from_secs(30));
    if o.status != Some(0) || o.timed_out {
        eprintln!("MACHINERY FAILURE: console child (abrupt exit) failed: status {:?} stderr {}", o.status, String::from_utf8_lossy(&o.stderr));
        std::process::exit(2);
    }
    rep.add("evaluations", 1);
    if o.stdout != b"a\nbtail" {
        rep.violation(
            "abrupt-exit:text-of-returned-append-not-on-stream",
            format!("two records \"a\\nb\" and \"tail\" (pattern {{m}}, stdout a pipe), then _exit: the pipe holds {:?}", String::from_utf8_lossy(&o.stdout)),
            json!({"abrupt": true}),
        );
    }
    rep.add("evaluations", cs.len() as u64);
    rep.set("matrix_cells", cs.len() as u64);
    rep.set("distinct_nontrivial", cs.iter().filter(|c| c.tty_only == "1" || c.no_color.is_some() || c.clicolor.is_some() || c.clicolor_force.is_some()).count() as u64);
    rep.set("distinct_outcomes", json!(outcomes));
    ansi_enum(&mut rep);
    rep.sample(cell_json(&cs[(ctx.seed as usize * 29 + 100) % cs.len()]));
    rep.sample(json!({"style": {"text": "Red", "background": "Blue", "intense": false}}));
    rep.assume("a variable counts as set when present and not \"0\" (the library's reading); Windows console code is not covered");
    rep
}

pub fn replay(case: &Value) -> Result<(), String> {
    if case.get("style").is_some() || case.get("first").is_some() {
        let mut rep = Report::new("model_checking");
        ansi_enum(&mut rep);
        return match rep.violations().first() {
            Some(v) => Err(format!("{}: {}", v.signature, v.detail)),
            None => Ok(()),
        };
    }
    if case.get("abrupt").is_some() {
        let exe = std::env::current_exe().map_err(|e| e.to_string())?;
        let o = crate::engine::proc::run_child(&exe, "c18", &["abrupt".to_string(), "0".to_string(), "builder".to_string()], &[], std::time::Duration::from_secs(30));
        return if o.stdout == b"a\nbtail" { Ok(()) } else { Err(format!("abrupt-exit:text-of-returned-append-not-on-stream: the pipe holds {:?}", String::from_utf8_lossy(&o.stdout))) };
    }
    let leak = |s: Option<&str>| -> Option<&'static str> { s.map(|x| -> &'static str { Box::leak(x.to_string().into_boxed_str()) }) };
    let c = Cell {
        no_color: leak(case["NO_COLOR"].as_str()),
        clicolor: leak(case["CLICOLOR"].as_str()),
        clicolor_force: leak(case["CLICOLOR_FORCE"].as_str()),
        target: leak(case["target"].as_str()).unwrap_or("stdout"),
        target_is_tty: case["target_is_tty"].as_bool().unwrap_or(false),
        tty_only: leak(case["tty_only"].as_str()).unwrap_or("0"),
        build: leak(case["build"].as_str()).unwrap_or("builder"),
    };
    let exe = std::env::current_exe().map_err(|e| e.to_string())?;
    let (out, err) = run_cell(&exe, &c)?;
    match judge(&c, &out, &err) {
        Some((s, d)) => Err(format!("{}: {}", s, d)),
        None => Ok(()),
    }
}
