//! C10 — width / fill / alignment count characters, truncate then pad, never split UTF-8.
//! E-ENUM through PatternEncoder with a capturing writer: every spec x every text x every way
//! the text arrives in pieces x sinks with short writes x nested specs.

use crate::engine::{capture::Sink, catch_panic, panic_site, Ctx, Report, Tier};
use log::{Level, Record};
use log4rs::encode::{pattern::PatternEncoder, Encode};
use rayon::prelude::*;
use serde_json::{json, Value};

#[derive(Clone, Copy, Debug, PartialEq, Eq)]
pub enum Align {
    Default,
    Left,
    Right,
}

#[derive(Clone, Debug, PartialEq, Eq)]
pub struct Spec {
    pub fill: Option<char>,
    pub align: Align,
    pub min: Option<usize>,
    pub max: Option<usize>,
}

impl Spec {
    pub fn none() -> Spec {
        Spec { fill: None, align: Align::Default, min: None, max: None }
    }
    pub fn is_none(&self) -> bool {
        *self == Spec::none()
    }
    /// concrete syntax after the formatter name, including the leading ':' (empty if no spec)
    pub fn syntax(&self) -> String {
        if self.is_none() {
            return String::new();
        }
        let mut s = String::from(":");
        if let Some(f) = self.fill {
            s.push(f);
        }
        match self.align {
            Align::Left => s.push('<'),
            Align::Right => s.push('>'),
            Align::Default => {}
        }
        if let Some(m) = self.min {
            s.push_str(&m.to_string());
        }
        if let Some(m) = self.max {
            s.push('.');
            s.push_str(&m.to_string());
        }
        s
    }
    /// the law: cut to the first `max` characters, then pad with `fill` up to `min` characters
    pub fn apply(&self, text: &str) -> String {
        let cut: String = match self.max {
            Some(m) => text.chars().take(m).collect(),
            None => text.to_owned(),
        };
        let n = cut.chars().count();
        let pad = self.min.map_or(0, |m| m.saturating_sub(n));
        let fill: String = std::iter::repeat(self.fill.unwrap_or(' ')).take(pad).collect();
        let out = match self.align {
            Align::Right => format!("{}{}", fill, cut),
            _ => format!("{}{}", cut, fill),
        };
        out
    }
    fn to_json(&self) -> Value {
        json!(self.syntax())
    }
}

pub fn specs(tier: Tier, fills: &[char]) -> Vec<Spec> {
    let widths: Vec<Option<usize>> = std::iter::once(None).chain((0..=tier.pick(5, 6)).map(Some)).collect();
    let mut out = vec![];
    let mut fa: Vec<(Option<char>, Align)> = vec![(None, Align::Default), (None, Align::Left), (None, Align::Right)];
    for f in fills {
        fa.push((Some(*f), Align::Left));
        fa.push((Some(*f), Align::Right));
    }
    for (fill, align) in fa {
        for min in &widths {
            for max in &widths {
                let s = Spec { fill, align, min: *min, max: *max };
                if s.syntax() == ":" {
                    continue; // "{m:}" is the empty spec; covered by none()
                }
                out.push(s);
            }
        }
    }
    out.push(Spec::none());
    out
}

fn texts(alpha: &[&str], max: usize) -> Vec<Vec<&'static str>> {
    // as lists of characters so that splits are cheap
    let alpha: Vec<&'static str> = alpha.iter().map(|s| -> &'static str { Box::leak(s.to_string().into_boxed_str()) }).collect();
    let mut out: Vec<Vec<&'static str>> = vec![vec![]];
    let mut fr: Vec<Vec<&'static str>> = vec![vec![]];
    for _ in 0..max {
        let mut nx = vec![];
        for t in &fr {
            for a in &alpha {
                let mut n = t.clone();
                n.push(*a);
                nx.push(n);
            }
        }
        out.extend(nx.iter().cloned());
        fr = nx;
    }
    out
}

/// all ways to cut a text of n characters into exactly three (possibly empty) pieces
fn splits(n: usize) -> Vec<(usize, usize)> {
    let mut v = vec![];
    for i in 0..=n {
        for j in i..=n {
            v.push((i, j));
        }
    }
    v
}

fn encode(enc: &PatternEncoder, pieces: [&str; 3], level: Level, limit: Option<usize>) -> Result<Sink, String> {
    let mut sink = Sink::new(limit);
    let r = catch_panic(|| {
        enc.encode(
            &mut sink,
            &Record::builder()
                .level(level)
                .target("t")
                .args(format_args!("{}{}{}", pieces[0], pieces[1], pieces[2]))
                .build(),
        )
    });
    match r {
        Err(p) => Err(format!("panic:{}", p)),
        Ok(Err(e)) => Err(format!("error:{}", e)),
        Ok(Ok(())) => Ok(sink),
    }
}

fn classify(got: &[u8], want: &str, spec: &Spec) -> String {
    match std::str::from_utf8(got) {
        Err(_) => "invalid-utf8".into(),
        Ok(g) => {
            if let Some(m) = spec.max {
                if g.chars().count() > m {
                    return "more-than-max-characters".into();
                }
            }
            if g.chars().count() > want.chars().count() {
                return "too-many-characters".into();
            }
            if g.chars().count() != want.chars().count() {
                "wrong-character-count".into()
            } else {
                "wrong-content".into()
            }
        }
    }
}

/// one pattern, every text/split/sink; returns (evaluations, first mismatch)
fn check_pattern(pattern: &str, law: &dyn Fn(&str, Level) -> String, spec_for_class: &Spec, txts: &[Vec<&'static str>], limits: &[Option<usize>], all_splits: bool) -> (u64, Option<(String, String, Value)>) {
    let enc = match catch_panic(|| PatternEncoder::new(pattern)) {
        Ok(e) => e,
        Err(p) => return (1, Some((format!("panic-new:{}", panic_site(&p)), p, json!({"pattern": pattern})))),
    };
    let mut n = 0;
    for t in txts {
        let whole: String = t.concat();
        let want = law(&whole, Level::Info);
        let sp = if all_splits { splits(t.len()) } else { vec![(t.len(), t.len())] };
        for (i, j) in sp {
            let p0: String = t[..i].concat();
            let p1: String = t[i..j].concat();
            let p2: String = t[j..].concat();
            for lim in limits {
                n += 1;
                let case = || json!({"pattern": pattern, "pieces": [p0, p1, p2], "sink_limit": lim});
                match encode(&enc, [&p0, &p1, &p2], Level::Info, *lim) {
                    Err(e) => {
                        let sig = if e.starts_with("panic:") { format!("panic-encode:{}", panic_site(&e[6..])) } else { "encode-error".to_string() };
                        return (n, Some((sig, e, case())));
                    }
                    Ok(sink) => {
                        // the law is stated for m <= M; for m > M the property only promises valid UTF-8 and at most M characters
                        let undetermined = matches!((spec_for_class.min, spec_for_class.max), (Some(a), Some(b)) if a > b);
                        if undetermined {
                            let ok = match std::str::from_utf8(&sink.buf) {
                                Ok(g) => g.chars().count() <= spec_for_class.max.unwrap(),
                                Err(_) => false,
                            };
                            if !ok {
                                let kind = classify(&sink.buf, &want, spec_for_class);
                                return (n, Some((format!("width-law:min-above-max:{}", kind), format!("pattern {:?} text {:?}: output {:?}", pattern, whole, String::from_utf8_lossy(&sink.buf)), case())));
                            }
                        } else if sink.buf != want.as_bytes() {
                            let kind = classify(&sink.buf, &want, &Spec::none());
                            return (
                                n,
                                Some((
                                    format!("width-law:{}", kind),
                                    format!("pattern {:?} text {:?}: output {:?}, law says {:?}", pattern, whole, String::from_utf8_lossy(&sink.buf), want),
                                    case(),
                                )),
                            );
                        }
                    }
                }
            }
        }
    }
    (n, None)
}

pub fn run(ctx: &Ctx) -> Report {
    let mut rep = Report::new("model_checking");
    rep.set(
        "rule",
        "E-ENUM: every format spec (min, max, fill, align) x every text over a UTF-8 width-class alphabet x every cut of the text into three \
         write_str pieces x sinks accepting {all,1,2,3} bytes per write; plus every pair of specs nested as {({m:a}{l}):b} and highlight inside an \
         aligned group. Output must equal pad(take_chars(text,M),m) byte for byte. Non-trivial = case where the law truncates or pads",
    );
    let fills = ['~', '0', 'é', '€', '😀', '}', '{', '(', ')', ':', '<', '>', '.', '\\'];
    let alpha = ["a", "é", "€", "😀", "\u{301}"];
    let txts = texts(&alpha, ctx.tier.pick(4, 5));
    let all = specs(ctx.tier, &fills);
    let limits = [None, Some(1), Some(2), Some(3)];
    // (1) single spec on {m}
    let res: Vec<(u64, u64, Option<(String, String, Value)>)> = all
        .par_iter()
        .map(|s| {
            if ctx.over_cap() {
                return (0, 0, None);
            }
            let pat = format!("{{m{}}}", s.syntax());
            let (n, m) = check_pattern(&pat, &|t, _| s.apply(t), s, &txts, &limits, true);
            let nt = txts.iter().filter(|t| s.apply(&t.concat()) != t.concat()).count() as u64;
            (n, nt, m)
        })
        .collect();
    let mut capped = false;
    for (n, nt, m) in res {
        if n == 0 {
            capped = true;
        }
        rep.add("evaluations", n);
        rep.add("distinct_nontrivial", nt);
        if let Some((s, d, c)) = m {
            rep.violation(s, d, c);
        }
    }
    // environment deviation: one write call of the sink answers EINTR (io::ErrorKind::Interrupted); write_all retries it
    let short_txts2: Vec<Vec<&'static str>> = txts.iter().filter(|t| t.len() <= 3).cloned().collect();
    let res: Vec<(u64, Option<(String, String, Value)>)> = all
        .par_iter()
        .map(|s| {
            let pat = format!("{{m{}}}|{{l{}}}", s.syntax(), s.syntax());
            let enc = match catch_panic(|| PatternEncoder::new(&pat)) {
                Ok(e) => e,
                Err(_) => return (0, None),
            };
            let undetermined = matches!((s.min, s.max), (Some(a), Some(b)) if a > b);
            let mut n = 0;
            for t in &short_txts2 {
                let whole: String = t.concat();
                let want = format!("{}|{}", s.apply(&whole), s.apply("INFO"));
                for lim in [None, Some(2usize)] {
                    for k in 0..6usize {
                        n += 1;
                        let mut sink = Sink::new(lim);
                        sink.interrupt_at = Some(k);
                        let r = catch_panic(|| enc.encode(&mut sink, &Record::builder().level(Level::Info).target("t").args(format_args!("{}", whole)).build()));
                        let case = || json!({"pattern": pat, "pieces": [whole, "", ""], "sink_limit": lim, "interrupt_at_write": k});
                        match r {
                            Err(p) => return (n, Some((format!("eintr:panic:{}", panic_site(&p)), p, case()))),
                            Ok(Err(e)) => return (n, Some(("eintr:encode-error".into(), e.to_string(), case()))),
                            Ok(Ok(())) => {
                                if !undetermined && sink.buf != want.as_bytes() {
                                    return (n, Some(("eintr:width-law".into(), format!("pattern {:?} text {:?} with write #{} interrupted once: output {:?}, law says {:?}", pat, whole, k, String::from_utf8_lossy(&sink.buf), want), case())));
                                }
                            }
                        }
                    }
                }
            }
            (n, None)
        })
        .collect();
    for (n, m) in res {
        rep.add("evaluations", n);
        rep.add("interrupted_write_evaluations", n);
        if let Some((sg, d, c)) = m {
            rep.violation(sg, d, c);
        }
    }
    rep.set("single_specs", all.len() as u64);
    rep.set("texts", txts.len() as u64);
    // (2) nested pairs
    let small: Vec<Spec> = {
        let mut v = vec![Spec::none()];
        for (fill, align) in [(None, Align::Left), (None, Align::Right), (Some('é'), Align::Left), (Some('~'), Align::Right)] {
            for (min, max) in [(Some(3), None), (None, Some(2)), (Some(2), Some(3)), (Some(4), Some(4)), (Some(0), Some(0)), (Some(1), Some(5))] {
                v.push(Spec { fill, align, min, max });
            }
        }
        v
    };
    let short_txts: Vec<Vec<&'static str>> = txts.iter().filter(|t| t.len() <= 3).cloned().collect();
    let pairs: Vec<(Spec, Spec)> = small.iter().flat_map(|a| small.iter().map(move |b| (a.clone(), b.clone()))).collect();
    let res: Vec<(u64, Option<(String, String, Value)>)> = pairs
        .par_iter()
        .map(|(a, b)| {
            let mut total = 0;
            // {({m:a}{l}):b}, the same with highlight, and literal text next to the inner formatter
            for (pat, law) in [
                (format!("{{({{m{}}}{{l}}){}}}", a.syntax(), b.syntax()), Box::new(|t: &str, l: Level| b.apply(&format!("{}{}", a.apply(t), l))) as Box<dyn Fn(&str, Level) -> String>),
                (format!("{{h({{m{}}}){}}}", a.syntax(), b.syntax()), Box::new(|t: &str, _| b.apply(&a.apply(t)))),
                (format!("{{(é{{m{}}}x){}}}|", a.syntax(), b.syntax()), Box::new(|t: &str, _| format!("{}|", b.apply(&format!("é{}x", a.apply(t)))))),
            ] {
                let (n, m) = check_pattern(&pat, &*law, b, &short_txts, &limits, false);
                total += n;
                if m.is_some() {
                    return (total, m);
                }
            }
            (total, None)
        })
        .collect();
    for (n, m) in res {
        rep.add("evaluations", n);
        rep.add("nested_evaluations", n);
        if let Some((s, d, c)) = m {
            rep.violation(format!("nested:{}", s), d, c);
        }
    }
    rep.set("nested_pairs", pairs.len() as u64);
    rep.set("exhaustive", !capped);
    rep.sample(json!({"pattern": format!("{{m{}}}", all[(ctx.seed as usize + 1234) % all.len()].syntax()), "texts": "all strings over {a,é,€,😀,U+0301} up to the bound, every 3-way cut, sink limits none/1/2/3"}));
    rep.sample(json!({"pattern": "{({m:é<2.3}{l}):~>4.4}", "law": "b.apply(a.apply(text) ++ level)"}));
    rep.assume("text pieces arrive at character boundaries from fmt::Write; non-boundary arrivals are produced by the short-write sinks");
    rep
}

pub fn replay(case: &Value) -> Result<(), String> {
    // a replay re-encodes the recorded pattern/pieces and re-derives the law from the pattern's own spec text
    let pattern = case["pattern"].as_str().ok_or("bad case")?;
    let pieces: Vec<String> = case["pieces"].as_array().ok_or("bad case")?.iter().map(|p| p.as_str().unwrap_or("").to_owned()).collect();
    let lim = case["sink_limit"].as_u64().map(|l| l as usize);
    let enc = catch_panic(|| PatternEncoder::new(pattern)).map_err(|p| format!("panic in new: {}", p))?;
    let sink = encode(&enc, [&pieces[0], &pieces[1], &pieces[2]], Level::Info, lim)?;
    let unlimited = encode(&enc, [&pieces.concat(), "", ""], Level::Info, None)?;
    if std::str::from_utf8(&sink.buf).is_err() {
        return Err(format!("invalid UTF-8 output {:?}", sink.buf));
    }
    if let Some(want) = simple_law(pattern, &pieces.concat()) {
        if sink.buf != want.as_bytes() {
            return Err(format!("output {:?}, law says {:?}", String::from_utf8_lossy(&sink.buf), want));
        }
    }
    if sink.buf != unlimited.buf {
        return Err(format!("output depends on how the text arrives: {:?} vs {:?}", String::from_utf8_lossy(&sink.buf), String::from_utf8_lossy(&unlimited.buf)));
    }
    Ok(())
}

/// parses "{m:<spec>}" back (only the generator's own syntax) for replays
fn simple_law(pattern: &str, text: &str) -> Option<String> {
    let inner = pattern.strip_prefix("{m")?.strip_suffix('}')?;
    if inner.is_empty() {
        return Some(text.to_owned());
    }
    let inner = inner.strip_prefix(':')?;
    let cs: Vec<char> = inner.chars().collect();
    let mut i = 0;
    let mut spec = Spec::none();
    if cs.len() >= 2 && (cs[1] == '<' || cs[1] == '>') {
        spec.fill = Some(cs[0]);
        i = 1;
    }
    if i < cs.len() && cs[i] == '<' {
        spec.align = Align::Left;
        i += 1;
    } else if i < cs.len() && cs[i] == '>' {
        spec.align = Align::Right;
        i += 1;
    }
    let mut num = |i: &mut usize| -> Option<usize> {
        let s: String = cs[*i..].iter().take_while(|c| c.is_ascii_digit()).collect();
        *i += s.len();
        s.parse().ok()
    };
    spec.min = num(&mut i);
    if i < cs.len() && cs[i] == '.' {
        i += 1;
        spec.max = num(&mut i);
    }
    if i != cs.len() {
        return None;
    }
    Some(spec.apply(text))
}
