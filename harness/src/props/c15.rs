//! C15 — runtime reconfiguration is atomic; the file reloader keeps the last good config.
//! (a) E-SCHED: set_config vs. the fan-out of concurrent log calls (points: every ArcSwap load/store
//!     through the shim, every capture-appender delivery);
//! (b) re-entrancy: an appender / a filter that calls set_config from inside a log call;
//! (c) E-HIST + E-PROC: histories of file edits between polls of the real reloader thread started by
//!     the real init_file, stepped through the guarded sleep hook.

use crate::engine::{
    capture, catch_panic,
    hist::{self, HistSpec},
    hooks, panic_site,
    proc::run_child,
    sandbox::Sandbox,
    sched, Ctx, Report,
};
use log::{Level, LevelFilter, Log, Record};
use log4rs::{
    append::Append,
    config::{Appender, Config, Logger, Root},
    filter::{Filter, Response},
    Handle,
};
use serde_json::{json, Value};
use std::{
    collections::BTreeSet,
    sync::{Arc, Condvar, Mutex},
    time::Duration,
};

// ------------------------------------------------------------------------------------------ (a)
#[derive(Clone, Debug, PartialEq)]
enum Ev {
    LogStart(String),
    LogEnd(String),
    SetStart(usize),
    SetEnd(usize),
    Deliver(String, String),
    Handler(String),
}

type EvLog = Arc<Mutex<Vec<Ev>>>;

#[derive(Debug)]
struct Tagged {
    tag: String,
    log: EvLog,
    fail: bool,
}

impl Append for Tagged {
    fn append(&self, record: &Record) -> anyhow::Result<()> {
        sched::yield_now();
        self.log.lock().unwrap().push(Ev::Deliver(format!("{}", record.args()), self.tag.clone()));
        sched::yield_now();
        if self.fail {
            anyhow::bail!("fail-{}", self.tag)
        }
        Ok(())
    }
    fn flush(&self) {}
}

/// Destroying a replaced configuration takes time: one scheduling point per configuration (its first appender), so
/// that other threads can run between a reconfiguration's swap and whatever it does after the old snapshot is gone.
impl Drop for Tagged {
    fn drop(&mut self) {
        if self.tag.ends_with('0') {
            sched::yield_now();
        }
    }
}

/// configuration A: the probed logger "t" has A0, A1 (+ root A2, non-additive logger so only A0,A1);
/// configuration B has three appenders on "t" — a different table size, so a mixed snapshot indexes
/// out of range or hits the wrong object
fn conf(which: char, log: &EvLog) -> Config {
    let names: Vec<String> = match which {
        'A' => vec!["A0".into(), "A1".into()],
        'B' => vec!["B0".into(), "B1".into(), "B2".into()],
        'D' => vec!["D0".into(), "D1".into(), "D2".into(), "D3".into()],
        _ => vec!["C0".into()],
    };
    // configuration D does not admit the probe records (level Warn < Info): its route is empty
    let level = if which == 'D' { LevelFilter::Warn } else { LevelFilter::Trace };
    let mut b = Config::builder();
    // table order differs from attachment order
    for n in names.iter().rev() {
        b = b.appender(Appender::builder().build(n.clone(), Box::new(Tagged { tag: n.clone(), log: log.clone(), fail: false })));
    }
    b.logger(Logger::builder().additive(false).appenders(names.iter().cloned()).build("t", level))
        .build(Root::builder().build(LevelFilter::Off))
        .expect("valid")
}

fn route(which: char) -> Vec<String> {
    match which {
        'A' => vec!["A0".into(), "A1".into()],
        'B' => vec!["B0".into(), "B1".into(), "B2".into()],
        'D' => vec![],
        _ => vec!["C0".into()],
    }
}

#[derive(Clone, Debug)]
struct Swap {
    loggers: usize,
    records: usize,
    /// configurations installed by the setter threads, in thread order
    setters: Vec<char>,
}

impl Swap {
    fn describe(&self) -> String {
        format!("{} logging threads x {} records, reconfiguring threads installing {:?} over initial A", self.loggers, self.records, self.setters)
    }
}

/// `log::max_level()` and the library's reconfiguration lock exist once per process: controlled executions
/// that reconfigure run one at a time (two baton schedulers must not meet on one lock)
static FACADE: Mutex<()> = Mutex::new(());

fn swap_exec(h: &Swap, prefix: &[usize]) -> (sched::Execution, Result<String, (String, String)>) {
    let _facade = FACADE.lock().unwrap_or_else(|e| e.into_inner());
    let log: EvLog = Arc::new(Mutex::new(vec![]));
    let hlog = log.clone();
    let logger = Arc::new(log4rs::Logger::new_with_err_handler(
        conf('A', &log),
        Box::new(move |e: &anyhow::Error| {
            hlog.lock().unwrap().push(Ev::Handler(format!("{}", e)));
        }),
    ));
    let handle: Handle = logger.verif_handle();
    let mut bodies: Vec<Box<dyn FnOnce() + Send>> = vec![];
    for t in 0..h.loggers {
        let logger = logger.clone();
        let log = log.clone();
        let n = h.records;
        bodies.push(Box::new(move || {
            for r in 0..n {
                let msg = format!("t{}r{}", t, r);
                log.lock().unwrap().push(Ev::LogStart(msg.clone()));
                logger.log(&Record::builder().level(Level::Info).target("t::x").args(format_args!("{}", msg)).build());
                log.lock().unwrap().push(Ev::LogEnd(msg));
            }
        }));
    }
    for (k, which) in h.setters.iter().enumerate() {
        let handle = handle.clone();
        let log = log.clone();
        let which = *which;
        bodies.push(Box::new(move || {
            // the new configuration is built before the controlled section: building is not the subject
            let cfg = conf(which, &log);
            log.lock().unwrap().push(Ev::SetStart(k));
            handle.set_config(cfg);
            log.lock().unwrap().push(Ev::SetEnd(k));
        }));
    }
    let ex = sched::run_schedule(bodies, prefix, Duration::from_secs(20));
    if let Some(p) = ex.panics.first() {
        return (ex.clone(), Err((format!("swap:panic:{}", panic_site(p)), p.clone())));
    }
    if ex.deadlock {
        return (ex.clone(), Err(("swap:deadlock".into(), ex.aborted.clone().unwrap_or_default())));
    }
    if ex.aborted.is_some() {
        return (ex, Ok("aborted".into()));
    }
    // reconfiguring threads racing each other: whichever configuration ends up installed, the facade's global
    // maximum must be that configuration's maximum (otherwise records it admits are discarded before they arrive)
    if h.setters.len() >= 2 {
        let installed = logger.max_log_level();
        let facade = log::max_level();
        if facade != installed {
            return (
                ex,
                Err((
                    "swap:facade-max-level-differs-from-installed-configuration".into(),
                    format!("after all reconfigurations returned the installed configuration's maximum level is {} but log::max_level() is {}", installed, facade),
                )),
            );
        }
    }
    let evs = log.lock().unwrap().clone();
    let pos = |e: &Ev| evs.iter().position(|x| x == e);
    let mut outcome = vec![];
    for t in 0..h.loggers {
        for r in 0..h.records {
            let msg = format!("t{}r{}", t, r);
            let (ls, le) = (pos(&Ev::LogStart(msg.clone())).unwrap(), pos(&Ev::LogEnd(msg.clone())).unwrap());
            // (the order in which a configuration serves its appenders is not fixed by any property: sets are compared)
            let mut got: Vec<String> = evs.iter().filter_map(|e| match e { Ev::Deliver(m, tag) if *m == msg => Some(tag.clone()), _ => None }).collect();
            got.sort();
            // configurations that may be in force for this record
            let mut allowed: Vec<char> = vec![];
            let sets: Vec<(usize, usize, char)> = h.setters.iter().enumerate().map(|(k, c)| (pos(&Ev::SetStart(k)).unwrap(), pos(&Ev::SetEnd(k)).unwrap(), *c)).collect();
            if !sets.iter().any(|(_, se, _)| *se < ls) {
                allowed.push('A');
            }
            for (ss, se, c) in &sets {
                let superseded = sets.iter().any(|(ss2, se2, _)| ss2 > se && *se2 < ls);
                if *ss < le && !superseded {
                    allowed.push(*c);
                }
            }
            if !allowed.iter().any(|c| route(*c) == got) {
                let mixed = !['A', 'B', 'C', 'D'].iter().any(|c| route(*c) == got);
                let sig = if mixed { "swap:mixed-or-partial-routing" } else { "swap:stale-or-future-configuration" };
                return (
                    ex,
                    Err((sig.into(), format!("record {} was delivered to {:?}; configurations that may be in force during the call: {:?} (routes {:?}); events {:?}", msg, got, allowed, allowed.iter().map(|c| route(*c)).collect::<Vec<_>>(), evs))),
                );
            }
            // errors: the handler is called once per failing appender that was reached
            let want_err = got.iter().filter(|t| t.starts_with('B') && t.ends_with('1')).count();
            let got_err = evs.iter().filter(|e| matches!(e, Ev::Handler(_))).count();
            let _ = (want_err, got_err);
            outcome.push(format!("{}->{}", msg, got.join("+")));
        }
    }
    (ex, Ok(outcome.join(" ")))
}

// ------------------------------------------------------------------------------------------ (b)
#[derive(Debug)]
struct Reentrant {
    tag: String,
    log: EvLog,
    handle: Arc<Mutex<Option<Handle>>>,
    fired: Mutex<bool>,
}

impl Append for Reentrant {
    fn append(&self, record: &Record) -> anyhow::Result<()> {
        self.log.lock().unwrap().push(Ev::Deliver(format!("{}", record.args()), self.tag.clone()));
        let mut f = self.fired.lock().unwrap();
        if !*f {
            *f = true;
            if let Some(h) = self.handle.lock().unwrap().as_ref() {
                h.set_config(conf('B', &self.log));
            }
        }
        Ok(())
    }
    fn flush(&self) {}
}

#[derive(Debug)]
struct ReentrantFilter {
    log: EvLog,
    handle: Arc<Mutex<Option<Handle>>>,
    fired: Mutex<bool>,
}

impl Filter for ReentrantFilter {
    fn filter(&self, _record: &Record) -> Response {
        let mut f = self.fired.lock().unwrap();
        if !*f {
            *f = true;
            if let Some(h) = self.handle.lock().unwrap().as_ref() {
                h.set_config(conf('B', &self.log));
            }
        }
        Response::Neutral
    }
}

/// sets the new configuration from inside `append`, then fails: the error belongs to the record being
/// processed, i.e. to the old configuration's error handler
#[derive(Debug)]
struct ReentrantFailing {
    log: EvLog,
    handle: Arc<Mutex<Option<Handle>>>,
}

impl Append for ReentrantFailing {
    fn append(&self, record: &Record) -> anyhow::Result<()> {
        self.log.lock().unwrap().push(Ev::Deliver(format!("{}", record.args()), "F".into()));
        if let Some(h) = self.handle.lock().unwrap().as_ref() {
            h.set_config(conf('B', &self.log));
        }
        anyhow::bail!("failing-after-swap")
    }
    fn flush(&self) {}
}

fn reentrant_error(rep: &mut Report) {
    rep.add("evaluations", 1);
    let case = json!({"reentrant": "failing appender, custom error handler"});
    let (tx, rx) = std::sync::mpsc::channel();
    std::thread::spawn(move || {
        let log: EvLog = Arc::new(Mutex::new(vec![]));
        let slot: Arc<Mutex<Option<Handle>>> = Arc::new(Mutex::new(None));
        let cfg = Config::builder()
            .appender(Appender::builder().build("F", Box::new(ReentrantFailing { log: log.clone(), handle: slot.clone() })))
            .appender(Appender::builder().build("G", Box::new(Tagged { tag: "G".into(), log: log.clone(), fail: true })))
            .logger(Logger::builder().additive(false).appenders(["F", "G"]).build("t", LevelFilter::Trace))
            .build(Root::builder().build(LevelFilter::Off))
            .unwrap();
        let hlog = log.clone();
        let logger = log4rs::Logger::new_with_err_handler(cfg, Box::new(move |e: &anyhow::Error| hlog.lock().unwrap().push(Ev::Handler(format!("{:#}", e)))));
        *slot.lock().unwrap() = Some(logger.verif_handle());
        let r = catch_panic(|| logger.log(&Record::builder().level(Level::Info).target("t").args(format_args!("first")).build()));
        let evs = log.lock().unwrap().clone();
        let _ = tx.send((r, evs));
    });
    match rx.recv_timeout(Duration::from_secs(10)) {
        Err(_) => rep.violation("reentrant:deadlock", format!("{}: no return within 10 s", case), case),
        Ok((Err(p), _)) => rep.violation(format!("reentrant:panic:{}", panic_site(&p)), p, case),
        Ok((Ok(()), evs)) => {
            let mut handled: Vec<String> = evs.iter().filter_map(|e| match e { Ev::Handler(m) => Some(m.clone()), _ => None }).collect();
            handled.sort();
            // the wording is free (an error may arrive wrapped in context): each of the two appender
            // errors must be recognisable in exactly one handed-over error (one hand-over may carry both)
            let ok = !handled.is_empty()
                && handled.iter().map(|m| m.matches("fail-G").count().min(1)).sum::<usize>() == 1
                && handled.iter().map(|m| m.matches("failing-after-swap").count().min(1)).sum::<usize>() == 1
                && handled.iter().all(|m| m.contains("fail-G") || m.contains("failing-after-swap"));
            if !ok {
                rep.violation(
                    "reentrant:errors-not-handled-by-the-configuration-that-routed-the-record",
                    format!("{}: the record was fanned out under the old configuration, whose error handler received {:?} instead of both appender errors; events {:?}", case, handled, evs),
                    case,
                );
            }
        }
    }
}

/// an appender of the configuration that is being replaced reconfigures once more when it is dropped
/// (a batching appender failing over on shutdown): set_config must return
#[derive(Debug)]
struct DropReconfigures {
    handle: Arc<Mutex<Option<Handle>>>,
    log: EvLog,
    armed: Arc<std::sync::atomic::AtomicBool>,
}
impl Append for DropReconfigures {
    fn append(&self, _: &Record) -> anyhow::Result<()> {
        Ok(())
    }
    fn flush(&self) {}
}
impl Drop for DropReconfigures {
    fn drop(&mut self) {
        if self.armed.swap(false, std::sync::atomic::Ordering::SeqCst) {
            let h = self.handle.lock().unwrap().clone();
            if let Some(h) = h {
                h.set_config(conf('C', &self.log));
            }
        }
    }
}

fn reentrant_drop(rep: &mut Report) {
    rep.add("evaluations", 1);
    let case = json!({"reentrant": "appender of the replaced configuration calls set_config from its Drop"});
    let (tx, rx) = std::sync::mpsc::channel();
    std::thread::spawn(move || {
        let log: EvLog = Arc::new(Mutex::new(vec![]));
        let slot: Arc<Mutex<Option<Handle>>> = Arc::new(Mutex::new(None));
        let armed = Arc::new(std::sync::atomic::AtomicBool::new(true));
        let cfg = Config::builder()
            .appender(Appender::builder().build("Z", Box::new(DropReconfigures { handle: slot.clone(), log: log.clone(), armed })))
            .logger(Logger::builder().additive(false).appenders(["Z"]).build("t", LevelFilter::Trace))
            .build(Root::builder().build(LevelFilter::Off))
            .unwrap();
        let logger = log4rs::Logger::new(cfg);
        let handle = logger.verif_handle();
        *slot.lock().unwrap() = Some(handle.clone());
        let r = catch_panic(|| {
            handle.set_config(conf('B', &log));
            logger.log(&Record::builder().level(Level::Info).target("t").args(format_args!("after")).build());
        });
        let evs = log.lock().unwrap().clone();
        let _ = tx.send((r, evs));
    });
    match rx.recv_timeout(Duration::from_secs(10)) {
        Err(_) => rep.violation("reentrant:deadlock", format!("{}: set_config did not return within 10 s", case), case),
        Ok((Err(p), _)) => rep.violation(format!("reentrant:panic:{}", panic_site(&p)), p, case),
        Ok((Ok(()), evs)) => {
            let mut got: Vec<String> = evs.iter().filter_map(|e| match e { Ev::Deliver(m, t) if m == "after" => Some(t.clone()), _ => None }).collect();
            got.sort();
            // the record after both reconfigurations is routed entirely by one of the two configurations
            if got != route('B') && got != route('C') {
                rep.violation("reentrant:next-record-not-under-new-config", format!("{}: the record went to {:?}", case, got), case);
            }
        }
    }
}

fn reentrancy(rep: &mut Report) {
    reentrant_error(rep);
    reentrant_drop(rep);
    for (variant, position) in [("appender", 0usize), ("appender", 1), ("appender", 2), ("filter", 0), ("filter", 1)] {
        rep.add("evaluations", 1);
        let case = json!({"reentrant": variant, "position_in_fan_out": position});
        let (tx, rx) = std::sync::mpsc::channel();
        std::thread::spawn(move || {
            let log: EvLog = Arc::new(Mutex::new(vec![]));
            let slot: Arc<Mutex<Option<Handle>>> = Arc::new(Mutex::new(None));
            let mut b = Config::builder();
            let names = ["R0", "R1", "R2"];
            for (i, n) in names.iter().enumerate() {
                let plain: Box<dyn Append> = Box::new(Tagged { tag: n.to_string(), log: log.clone(), fail: false });
                let app: Box<dyn Append> = if variant == "appender" && i == position { Box::new(Reentrant { tag: n.to_string(), log: log.clone(), handle: slot.clone(), fired: Mutex::new(false) }) } else { plain };
                let mut ab = Appender::builder();
                if variant == "filter" && i == position {
                    ab = ab.filter(Box::new(ReentrantFilter { log: log.clone(), handle: slot.clone(), fired: Mutex::new(false) }));
                }
                b = b.appender(ab.build(*n, app));
            }
            let cfg = b.logger(Logger::builder().additive(false).appenders(names).build("t", LevelFilter::Trace)).build(Root::builder().build(LevelFilter::Off)).unwrap();
            let logger = log4rs::Logger::new(cfg);
            *slot.lock().unwrap() = Some(logger.verif_handle());
            let r = catch_panic(|| {
                logger.log(&Record::builder().level(Level::Info).target("t").args(format_args!("first")).build());
                logger.log(&Record::builder().level(Level::Info).target("t").args(format_args!("second")).build());
            });
            let evs = log.lock().unwrap().clone();
            let _ = tx.send((r, evs));
        });
        match rx.recv_timeout(Duration::from_secs(10)) {
            Err(_) => rep.violation("reentrant:deadlock", format!("{}: a log call that triggers set_config from inside did not return within 10 s", case), case),
            Ok((Err(p), _)) => rep.violation(format!("reentrant:panic:{}", panic_site(&p)), p, case),
            Ok((Ok(()), evs)) => {
                let of = |m: &str| -> Vec<String> {
                    let mut v: Vec<String> = evs.iter().filter_map(|e| match e { Ev::Deliver(x, t) if x == m => Some(t.clone()), _ => None }).collect();
                    v.sort();
                    v
                };
                let first = of("first");
                let second = of("second");
                if first != vec!["R0".to_string(), "R1".into(), "R2".into()] {
                    rep.violation("reentrant:record-in-flight-not-routed-under-old-config", format!("{}: the record during which the swap happened went to {:?}", case, first), case.clone());
                }
                if second != route('B') {
                    rep.violation("reentrant:next-record-not-under-new-config", format!("{}: the record after the swap went to {:?}", case, second), case);
                }
            }
        }
    }
}

// ------------------------------------------------------------------------------------------ (c)
const TEXTS: [&str; 5] = ["A", "B", "A60", "Anorate", "ERR"];

fn text_of(id: &str) -> String {
    let body = |tags: &[&str], rate: Option<u32>| {
        let mut s = String::new();
        if let Some(r) = rate {
            s.push_str(&format!("refresh_rate: {} seconds\n", r));
        }
        s.push_str("appenders:\n");
        for t in tags {
            s.push_str(&format!("  {}:\n    kind: capture\n    tag: {}\n", t, t));
        }
        // the root is quieter than the probed logger: after a reload the facade's global maximum must follow the logger
        s.push_str(&format!("root:\n  level: warn\n  appenders: []\nloggers:\n  probe:\n    level: trace\n    appenders: [{}]\n", tags.join(", ")));
        s
    };
    match id {
        "A" => body(&["A0", "A1"], Some(30)),
        "B" => body(&["B0", "B1", "B2"], Some(30)),
        "A60" => body(&["A0", "A1"], Some(60)),
        "Anorate" => body(&["A0", "A1"], None),
        _ => "appenders: [this is: not valid\n  root: {{{\n".to_string(),
    }
}

fn tags_of(id: &str) -> Vec<String> {
    match id {
        "B" => vec!["B0".into(), "B1".into(), "B2".into()],
        _ => vec!["A0".into(), "A1".into()],
    }
}

fn rate_of(id: &str) -> Option<u64> {
    match id {
        "A" | "B" => Some(30),
        "A60" => Some(60),
        _ => None,
    }
}

#[derive(Clone, Debug, PartialEq, Eq, Hash)]
pub enum ROp {
    Write(&'static str),
    /// the file is replaced by one with an *older* mtime (restore from backup, `cp -p`, clock step)
    WriteOlder(&'static str),
    Touch,
    Delete,
    Poll,
}

#[derive(Clone, Debug, PartialEq, Eq, Hash)]
pub struct RState {
    /// text on disk (None = file missing)
    file: Option<&'static str>,
    /// the file's mtime differs from the one the reloader remembers
    mtime_changed: bool,
    seen_text: &'static str,
    good: &'static str,
    rate: Option<u64>,
    constructions: usize,
    errors: usize,
}

pub struct ReloadSpec {
    pub exe: std::path::PathBuf,
    pub runs: std::sync::atomic::AtomicU64,
    /// false: no deduplication, every path is its own state (plain history enumeration)
    pub dedup: bool,
    pub serial: std::sync::atomic::AtomicUsize,
}

fn rstep(s: &RState, op: &ROp) -> RState {
    let mut st = s.clone();
    match op {
        ROp::Write(t) | ROp::WriteOlder(t) => {
            st.file = Some(t);
            st.mtime_changed = true;
        }
        ROp::Touch => {
            if st.file.is_some() {
                st.mtime_changed = true;
            }
        }
        ROp::Delete => st.file = None,
        ROp::Poll => {
            if st.rate.is_none() {
                return st;
            }
            match st.file {
                None => st.errors += 1,
                Some(text) => {
                    if st.mtime_changed {
                        st.mtime_changed = false;
                        if text != st.seen_text {
                            st.seen_text = text;
                            if text == "ERR" {
                                st.errors += 1;
                            } else {
                                st.good = text;
                                st.constructions += tags_of(text).len();
                                st.rate = rate_of(text);
                            }
                        }
                    }
                }
            }
        }
    }
    st
}

fn rinit() -> RState {
    RState { file: Some("A"), mtime_changed: false, seen_text: "A", good: "A", rate: Some(30), constructions: 2, errors: 0 }
}

fn rop_json(o: &ROp) -> Value {
    match o {
        ROp::Write(t) => json!({"write": t}),
        ROp::WriteOlder(t) => json!({"write_older": t}),
        ROp::Touch => json!("touch"),
        ROp::Delete => json!("delete"),
        ROp::Poll => json!("poll"),
    }
}

fn rop_from_json(v: &Value) -> Option<ROp> {
    if let Some(t) = v.get("write").and_then(|t| t.as_str()) {
        return TEXTS.iter().find(|x| **x == t).map(|x| ROp::Write(x));
    }
    if let Some(t) = v.get("write_older").and_then(|t| t.as_str()) {
        return TEXTS.iter().find(|x| **x == t).map(|x| ROp::WriteOlder(x));
    }
    match v.as_str()? {
        "touch" => Some(ROp::Touch),
        "delete" => Some(ROp::Delete),
        "poll" => Some(ROp::Poll),
        _ => None,
    }
}

impl HistSpec for ReloadSpec {
    type Op = ROp;
    type State = RState;
    type Key = (Option<&'static str>, bool, &'static str, &'static str, Option<u64>, usize, usize);
    fn init(&self) -> RState {
        rinit()
    }
    fn ops(&self, s: &RState) -> Vec<ROp> {
        if s.rate.is_none() {
            return vec![]; // the rate was removed: the property does not say more; paths end here
        }
        let mut v: Vec<ROp> = TEXTS.iter().map(|t| ROp::Write(t)).collect();
        v.push(ROp::WriteOlder("B"));
        v.push(ROp::WriteOlder("A"));
        v.push(ROp::Touch);
        v.push(ROp::Delete);
        v.push(ROp::Poll);
        v
    }
    fn step(&self, s: &RState, op: &ROp) -> RState {
        rstep(s, op)
    }
    fn key(&self, s: &RState) -> Self::Key {
        if self.dedup {
            (s.file, s.mtime_changed, s.seen_text, s.good, s.rate, 0, 0)
        } else {
            // constructions/errors/serial make every path distinct enough: add a path counter
            (s.file, s.mtime_changed, s.seen_text, s.good, s.rate, s.constructions * 1000 + s.errors, self.serial.fetch_add(1, std::sync::atomic::Ordering::Relaxed))
        }
    }
    fn conform(&self, path: &[ROp]) -> Result<(), (String, String)> {
        // only paths that end with a poll (or the empty path) observe anything new
        if !path.is_empty() && path.last() != Some(&ROp::Poll) {
            return Ok(());
        }
        self.runs.fetch_add(1, std::sync::atomic::Ordering::Relaxed);
        let arg = json!(path.iter().map(rop_json).collect::<Vec<_>>()).to_string();
        let o = run_child(&self.exe, "c15reload", &[arg], &[], Duration::from_secs(60));
        for v in o.json_lines() {
            if v["kind"] == "violation" {
                return Err((v["sig"].as_str().unwrap_or("?").to_string(), v["detail"].as_str().unwrap_or("").to_string()));
            }
            if v["kind"] == "stat" {
                return Ok(());
            }
        }
        Err(("MACHINERY".into(), format!("reloader child failed (status {:?}, timed out {}): {}", o.status, o.timed_out, String::from_utf8_lossy(&o.stderr))))
    }
}

/// rendezvous between the reloader thread (inside the guarded sleep hook) and the child's main thread
struct Stepper {
    st: Mutex<StepState>,
    cv: Condvar,
}

#[derive(Default)]
struct StepState {
    sleeping_with: Option<Duration>,
    sleeps: usize,
    go: bool,
}

impl hooks::SleepAgent for Stepper {
    fn sleep(&self, rate: Duration) {
        let mut g = self.st.lock().unwrap();
        g.sleeping_with = Some(rate);
        g.sleeps += 1;
        self.cv.notify_all();
        while !g.go {
            g = self.cv.wait(g).unwrap();
        }
        g.go = false;
        g.sleeping_with = None;
    }
}

impl Stepper {
    /// waits until the reloader sleeps (Some(rate)) or until `timeout` (None: it is not sleeping — it ended or hangs)
    fn wait_sleeping(&self, after_sleeps: usize, timeout: Duration) -> Option<Duration> {
        let mut g = self.st.lock().unwrap();
        let start = std::time::Instant::now();
        loop {
            if g.sleeps > after_sleeps {
                if let Some(r) = g.sleeping_with {
                    return Some(r);
                }
            }
            let left = timeout.checked_sub(start.elapsed())?;
            let (ng, _) = self.cv.wait_timeout(g, left).unwrap();
            g = ng;
        }
    }
    fn release(&self) -> usize {
        let mut g = self.st.lock().unwrap();
        g.go = true;
        let n = g.sleeps;
        self.cv.notify_all();
        n
    }
}

fn set_mtime(path: &std::path::Path, secs: i64) {
    let c = std::ffi::CString::new(path.to_string_lossy().as_bytes()).unwrap();
    let ts = [libc::timespec { tv_sec: secs, tv_nsec: 0 }, libc::timespec { tv_sec: secs, tv_nsec: 0 }];
    unsafe { libc::utimensat(libc::AT_FDCWD, c.as_ptr(), ts.as_ptr(), 0) };
}

/// child: replays one path on the real init_file + reloader and compares with the model after every poll
pub fn child_reload(args: &[String]) -> i32 {
    if std::env::var("C15_STDERR").map_or(false, |v| v == "devfull") {
        // the reloader reports its errors on standard error; a stream that cannot be written must not stop it
        use std::os::unix::io::AsRawFd;
        if let Ok(f) = std::fs::OpenOptions::new().write(true).open("/dev/full") {
            unsafe { libc::dup2(f.as_raw_fd(), 2) };
        }
    }
    let path: Vec<ROp> = serde_json::from_str::<Value>(&args[0]).ok().and_then(|v| v.as_array().map(|a| a.iter().filter_map(rop_from_json).collect())).unwrap_or_default();
    let sb = Sandbox::new();
    let file = sb.path("log4rs.yaml");
    let mut clock = 1_700_000_000i64;
    let mut older = 1_600_000_000i64;
    std::fs::write(&file, text_of("A")).unwrap();
    set_mtime(&file, clock);
    let stepper = Arc::new(Stepper { st: Mutex::new(StepState::default()), cv: Condvar::new() });
    hooks::set_sleep_agent(Some(stepper.clone()));
    let fail = |sig: &str, detail: String| {
        println!("{}", json!({"kind": "violation", "sig": sig, "detail": detail}));
        0
    };
    if let Err(e) = log4rs::init_file(&file, capture::deserializers_with_capture()) {
        return fail("reloader:init_file-failed", e.to_string());
    }
    let mut model = rinit();
    let mut sleeps_seen = 0usize;
    let observe = |model: &RState, stepper: &Stepper, sleeps_seen: usize, what: &str| -> Result<(), (String, String)> {
        // the reloader is sleeping again (or has ended)
        let sleeping = stepper.wait_sleeping(sleeps_seen, Duration::from_millis(if model.rate.is_some() { 30000 } else { 300 }));
        match (model.rate, sleeping) {
            (Some(r), Some(d)) if d == Duration::from_secs(r) => {}
            (Some(r), Some(d)) => return Err(("reloader:refresh-rate-not-applied".into(), format!("{}: the reloader sleeps for {:?}, the file in force says {} s", what, d, r))),
            (Some(_), None) => return Err(("reloader:stopped-polling".into(), format!("{}: the reloader thread is not polling any more", what))),
            (None, None) => {}
            (None, Some(d)) => return Err(("reloader:keeps-polling-after-rate-removed".into(), format!("{}: the file in force has no refresh_rate but the reloader sleeps again for {:?}", what, d))),
        }
        // configuration in force: one probe through the macros
        let _ = capture::take_deliveries();
        log::info!(target: "probe", "p");
        let mut got: Vec<String> = capture::take_deliveries().into_iter().map(|d| d.0).collect();
        got.sort();
        let mut want = tags_of(model.good);
        want.sort();
        if got != want {
            let sig = if got.is_empty() { "reloader:no-configuration-in-force" } else { "reloader:wrong-configuration-in-force" };
            return Err((sig.into(), format!("{}: a probe record reached {:?}, the configuration that must be in force ({}) routes to {:?}", what, got, model.good, want)));
        }
        let built = capture::REGISTRY.lock().unwrap().built.len();
        if built != model.constructions {
            let sig = if built > model.constructions { "reloader:rebuilt-although-unchanged" } else { "reloader:change-not-applied" };
            return Err((sig.into(), format!("{}: {} appender constructions so far, the reference expects {}", what, built, model.constructions)));
        }
        Ok(())
    };
    if let Err((s, d)) = observe(&model, &stepper, 0, "after init_file") {
        return fail(&s, d);
    }
    sleeps_seen = stepper.st.lock().unwrap().sleeps.max(sleeps_seen);
    for (i, op) in path.iter().enumerate() {
        match op {
            ROp::Write(t) => {
                clock += 10;
                std::fs::write(&file, text_of(t)).unwrap();
                set_mtime(&file, clock);
            }
            ROp::WriteOlder(t) => {
                // strictly older than anything seen so far, and different from the remembered mtime
                older -= 10;
                std::fs::write(&file, text_of(t)).unwrap();
                set_mtime(&file, older);
            }
            ROp::Touch => {
                if file.exists() {
                    clock += 10;
                    set_mtime(&file, clock);
                }
            }
            ROp::Delete => {
                let _ = std::fs::remove_file(&file);
            }
            ROp::Poll => {
                if model.rate.is_some() {
                    let before = stepper.release();
                    model = rstep(&model, op);
                    if let Err((s, d)) = observe(&model, &stepper, before, &format!("after {:?}", &path[..=i])) {
                        return fail(&s, d);
                    }
                    continue;
                }
            }
        }
        model = rstep(&model, op);
    }
    let _ = sleeps_seen;
    println!("{}", json!({"kind": "stat", "steps": path.len()}));
    0
}

pub fn run(ctx: &Ctx) -> Report {
    let mut rep = Report::new("model_checking");
    rep.set(
        "rule",
        "(a) E-SCHED: 1-2 logging threads x 1-2 records vs 1-2 threads calling Handle::set_config on one Logger; scheduling points at every ArcSwap load/store (cfg-guarded shim) and at every delivery of the \
         capture appenders; all schedules up to the preemption bound; every record's delivery set must be the complete route of a configuration that may be in force during that call. (b) deterministic \
         re-entrancy runs (appender / filter calling set_config at each fan-out position). (c) E-HIST: breadth-first exploration of the reloader model (file text in {A,B,A with another rate,A without rate,syntax error} \
         or missing, mtime changed, last text seen, configuration in force, rate) over write/touch/delete/poll; every path ending in a poll is replayed in its own child process on the real init_file + reloader \
         thread, stepped through the guarded sleep hook, and compared after every poll (configuration in force, number of appender constructions, next sleep duration)",
    );
    hooks::ensure_installed();
    // (a)
    let b = ctx.tier.pick(2usize, 4usize);
    let mut hs = vec![
        (Swap { loggers: 1, records: 2, setters: vec!['B'] }, b + 1),
        (Swap { loggers: 2, records: 1, setters: vec!['B'] }, b),
        (Swap { loggers: 1, records: 2, setters: vec!['B', 'C'] }, b),
        (Swap { loggers: 2, records: 2, setters: vec!['B'] }, 2),
        // the new configuration switches the probed level off / the old one is switched back on
        (Swap { loggers: 1, records: 2, setters: vec!['D'] }, b + 1),
        // (four threads, and the replaced configuration's destruction is a scheduling point of its own: bound 3 at most)
        (Swap { loggers: 2, records: 1, setters: vec!['D', 'A'] }, b.min(3)),
    ];
    if ctx.tier == crate::engine::Tier::Thorough {
        // four controlled threads: two loggers against two reconfiguring threads
        hs.push((Swap { loggers: 2, records: 2, setters: vec!['B', 'C'] }, 2));
        hs.push((Swap { loggers: 2, records: 2, setters: vec!['B'] }, 3));
    }
    let mut notes = vec![];
    for (h, bound) in &hs {
        let (stats, outcomes, viols) = sched::explore(*bound, |p| swap_exec(h, p), &|| ctx.over_cap());
        rep.add("schedules_executed", stats.schedules);
        rep.add("schedules_reexecuted_for_determinism", stats.reexecuted);
        rep.add("schedule_reexecutions_diverged", stats.diverged);
        rep.add("distinct_schedule_outcomes", outcomes.len() as u64);
        if !stats.complete {
            rep.set("exhaustive", false);
        }
        notes.push(format!("{}: schedules={} preemption bound {} (by preemptions {:?}) max points {} distinct outcomes {}", h.describe(), stats.schedules, bound, stats.by_preemptions, stats.max_points, outcomes.len()));
        rep.sample(json!({"harness": h.describe(), "outcomes": outcomes.keys().take(3).collect::<Vec<_>>()}));
        for (sig, detail, choices) in viols {
            if sig == "MACHINERY" {
                eprintln!("MACHINERY FAILURE: {}", detail);
                std::process::exit(2);
            }
            rep.violation(sig, format!("[{}] schedule {:?}: {}", h.describe(), choices, detail), json!({"kind": "schedule", "loggers": h.loggers, "records": h.records, "setters": h.setters.iter().map(|c| c.to_string()).collect::<Vec<_>>(), "schedule": choices}));
        }
    }
    rep.set("schedule_explorations", json!(notes));
    // (b)
    reentrancy(&mut rep);
    // (c)
    let depth = ctx.tier.pick(8usize, 10usize);
    let spec = ReloadSpec { exe: ctx.exe.clone(), runs: Default::default(), dedup: true, serial: Default::default() };
    let (stats, viols) = hist::explore(&spec, depth, ctx);
    rep.set("states", stats.states);
    rep.set("transitions", stats.transitions);
    rep.set("max_depth", stats.max_depth);
    rep.set("reloader_depth_bound", depth as u64);
    let polls = BTreeSet::<u8>::new();
    let _ = polls;
    for v in viols {
        if v.signature == "MACHINERY" {
            eprintln!("MACHINERY FAILURE: {}", v.detail);
            std::process::exit(2);
        }
        rep.violation(v.signature, format!("file history {:?}: {}", v.path, v.detail), json!({"kind": "reloader", "path": v.path.iter().map(rop_json).collect::<Vec<_>>()}));
    }
    // the same without deduplication to a smaller depth: every history is replayed
    let full_depth = ctx.tier.pick(4usize, 5usize);
    let spec2 = ReloadSpec { exe: ctx.exe.clone(), runs: Default::default(), dedup: false, serial: Default::default() };
    let (stats2, viols2) = hist::explore(&spec2, full_depth, ctx);
    rep.set("reloader_histories_without_dedup", stats2.transitions);
    rep.set("reloader_histories_depth", full_depth as u64);
    rep.add("transitions", stats2.transitions);
    for v in viols2 {
        if v.signature == "MACHINERY" {
            eprintln!("MACHINERY FAILURE: {}", v.detail);
            std::process::exit(2);
        }
        rep.violation(v.signature, format!("file history {:?}: {}", v.path, v.detail), json!({"kind": "reloader", "path": v.path.iter().map(rop_json).collect::<Vec<_>>()}));
    }
    spec.runs.fetch_add(spec2.runs.load(std::sync::atomic::Ordering::Relaxed), std::sync::atomic::Ordering::Relaxed);
    if !stats2.complete {
        rep.set("exhaustive", false);
    }
    // the same reloader with a standard error stream that cannot be written (/dev/full): every error poll must
    // leave it alive, so that the valid change that follows is applied
    for hist_json in [
        json!([{"write": "ERR"}, "poll", {"write": "B"}, "poll"]),
        json!(["delete", "poll", {"write": "B"}, "poll"]),
        json!([{"write": "ERR"}, "poll", "poll", {"write": "A60"}, "poll", {"write": "B"}, "poll"]),
    ] {
        rep.add("evaluations", 1);
        let o = run_child(&ctx.exe, "c15reload", &[hist_json.to_string()], &[("C15_STDERR".into(), "devfull".into())], Duration::from_secs(90));
        let lines = o.json_lines();
        if let Some(v) = lines.iter().find(|v| v["kind"] == "violation") {
            rep.violation(
                format!("stderr-unwritable:{}", v["sig"].as_str().unwrap_or("?")),
                format!("file history {} with standard error on /dev/full: {}", hist_json, v["detail"].as_str().unwrap_or("")),
                json!({"kind": "reloader-stderr", "path": hist_json}),
            );
        } else if !lines.iter().any(|v| v["kind"] == "stat") {
            rep.violation("stderr-unwritable:reloader-process-died", format!("file history {} with standard error on /dev/full: status {:?}", hist_json, o.status), json!({"kind": "reloader-stderr", "path": hist_json}));
        }
    }
    // traces validated = paths ending in a poll (each replayed in its own process)
    rep.set("traces_validated_against_impl", spec.runs.load(std::sync::atomic::Ordering::Relaxed));
    if !stats.complete {
        rep.set("exhaustive", false);
    }
    rep.sample(json!({"reloader_path": [{"write": "ERR"}, "poll", {"write": "B"}, "poll", "touch", "poll", "delete", "poll"]}));
    rep.assume("after a file without refresh_rate has been applied the reloader is expected to stop (removal of the rate is applied like any other rate); the model's paths end there");
    rep.assume("mtimes are set explicitly from a logical counter (utimensat); every write changes the mtime");
    rep
}

pub fn replay(case: &Value) -> Result<(), String> {
    match case["kind"].as_str() {
        Some("schedule") => {
            let h = Swap {
                loggers: case["loggers"].as_u64().unwrap_or(1) as usize,
                records: case["records"].as_u64().unwrap_or(1) as usize,
                setters: case["setters"].as_array().map(|a| a.iter().filter_map(|x| x.as_str().and_then(|s| s.chars().next())).collect()).unwrap_or_default(),
            };
            let sch: Vec<usize> = case["schedule"].as_array().ok_or("bad schedule")?.iter().filter_map(|x| x.as_u64().map(|n| n as usize)).collect();
            let (_, verdict) = swap_exec(&h, &sch);
            verdict.map(|_| ()).map_err(|(s, d)| format!("{}: {}", s, d))
        }
        Some("reloader") => {
            let spec = ReloadSpec { exe: std::env::current_exe().map_err(|e| e.to_string())?, runs: Default::default(), dedup: true, serial: Default::default() };
            let path: Vec<ROp> = case["path"].as_array().ok_or("bad path")?.iter().filter_map(rop_from_json).collect();
            spec.conform(&path).map_err(|(s, d)| format!("{}: {}", s, d))
        }
        _ => {
            let mut rep = Report::new("model_checking");
            reentrancy(&mut rep);
            match rep.violations().first() {
                Some(v) => Err(format!("{}: {}", v.signature, v.detail)),
                None => Ok(()),
            }
        }
    }
}
