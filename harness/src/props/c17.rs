//! C17 — the on-start-up trigger rolls at most once, on the first record, if the file is big enough.

use super::rolling::*;
use crate::engine::{Ctx, Report, Tier};

pub fn worlds(tier: Tier) -> Vec<World> {
    let mut v = vec![];
    for min in [0u64, 1, 5] {
        let mut pres: Vec<Option<u32>> = vec![None, Some(0), Some(min.saturating_sub(1) as u32), Some(min as u32), Some(min as u32 + 1)];
        pres.sort();
        pres.dedup();
        for pre in pres {
            for append in [true, false] {
                for roller in [RollerK::Fixed { base: 0, count: 2, ext: "" }, RollerK::Delete] {
                    if tier == Tier::Quick && roller == RollerK::Delete && !append {
                        continue;
                    }
                    v.push(World { append, trig: Trig::OnStartup(min), roller, pre, sizes: vec![0, 1, 3, 6], multibyte: false, restart: true });
                }
            }
        }
    }
    v
}

pub fn run(ctx: &Ctx) -> Report {
    let mut rep = Report::new("model_checking");
    rep.set(
        "rule",
        "E-HIST: per world (min_size in {0,1,5}, pre-existing file absent/0/min-1/min/min+1 bytes, open mode, roller) breadth-first exploration over append(0|1|3|6 bytes) and restart; \
         every transition replayed from scratch on the real appender with the real OnStartUpTrigger; per lifetime at most one rotation, only at the first record, iff size >= min_size; \
         archive 0 == the pre-existing bytes and the active file starts with the first new record (directory == model after every step). E-SCHED part: see schedules_* keys",
    );
    let depth = ctx.tier.pick(6, 8);
    run_worlds(ctx, &mut rep, &worlds(ctx.tier), depth);
    // the first records arrive simultaneously from several threads
    let mk = |min: u64, pre: Option<u32>, append: bool| World { append, trig: Trig::OnStartup(min), roller: RollerK::Fixed { base: 0, count: 2, ext: "" }, pre, sizes: vec![], multibyte: false, restart: false };
    let b = ctx.tier.pick(2usize, 3usize);
    let mut hs = vec![
        (RSched { world: mk(1, Some(10), true), threads: 2, per_thread: 2, size: 24, chunks: 2, restart_after: None }, b),
        (RSched { world: mk(5, Some(4), true), threads: 2, per_thread: 1, size: 24, chunks: 2, restart_after: None }, b),
        (RSched { world: mk(0, None, true), threads: 3, per_thread: 1, size: 24, chunks: 1, restart_after: None }, 2),
        (RSched { world: mk(1, Some(10), false), threads: 2, per_thread: 1, size: 24, chunks: 2, restart_after: None }, b),
    ];
    if ctx.tier == Tier::Thorough {
        hs.push((RSched { world: mk(1, Some(10), true), threads: 3, per_thread: 2, size: 24, chunks: 2, restart_after: None }, 2));
    }
    run_scheds(ctx, &mut rep, &hs);
    rep
}

pub fn replay(case: &serde_json::Value) -> Result<(), String> {
    if case["kind"] == "schedule" {
        return replay_sched_case(case);
    }
    replay_world_case(case)
}
