//! C17 — the on-start-up trigger rolls at most once, on the first record, if the file is big enough.

use super::rolling::*;
use crate::engine::{Ctx, Report, Tier};

pub fn worlds(tier: Tier) -> Vec<World> {
    let mut v = vec![];
    for min in [0u64, 1, 5] {
        let mut pres: Vec<Option<u32>> = vec![None, Some(0), Some(min.saturating_sub(1) as u32), Some(min as u32), Some(min as u32 + 1)];
        pres.sort();
        pres.dedup();
        for pre in pres {
            for append in [true, false] {
                for roller in [RollerK::Fixed { base: 0, count: 2, ext: "" }, RollerK::Delete] {
                    if tier == Tier::Quick && roller == RollerK::Delete && !append {
                        continue;
                    }
                    v.push(World { append, trig: Trig::OnStartup(min), roller, pre, sizes: vec![0, 1, 3, 6], multibyte: false, restart: true });
                }
            }
        }
    }
    v
}

pub fn run(ctx: &Ctx) -> Report {
    let mut rep = Report::new("model_checking");
    rep.set(
        "rule",
        "E-HIST: per world (min_size in {0,1,5}, pre-existing file absent/0/min-1/min/min+1 bytes, open mode, roller) breadth-first exploration over append(0|1|3|6 bytes) and restart; \
         every transition replayed from scratch on the real appender with the real OnStartUpTrigger; per lifetime at most one rotation, only at the first record, iff size >= min_size; \
         archive 0 == the pre-existing bytes and the active file starts with the first new record (directory == model after every step). E-SCHED part: see schedules_* keys. Fault domain: the roller fails at every subset of its first two calls (min_size x pre-existing size x open mode): at most one roller call per lifetime, only during the first record",
    );
    let depth = ctx.tier.pick(6, 8);
    run_worlds(ctx, &mut rep, &worlds(ctx.tier), depth);
    // the first records arrive simultaneously from several threads
    let mk = |min: u64, pre: Option<u32>, append: bool| World { append, trig: Trig::OnStartup(min), roller: RollerK::Fixed { base: 0, count: 2, ext: "" }, pre, sizes: vec![], multibyte: false, restart: false };
    let b = ctx.tier.pick(2usize, 3usize);
    let mut hs = vec![
        (RSched { world: mk(1, Some(10), true), threads: 2, per_thread: 2, size: 24, chunks: 2, restart_after: None }, b),
        (RSched { world: mk(5, Some(4), true), threads: 2, per_thread: 1, size: 24, chunks: 2, restart_after: None }, b),
        (RSched { world: mk(0, None, true), threads: 3, per_thread: 1, size: 24, chunks: 1, restart_after: None }, 2),
        (RSched { world: mk(1, Some(10), false), threads: 2, per_thread: 1, size: 24, chunks: 2, restart_after: None }, b),
    ];
    if ctx.tier == Tier::Thorough {
        hs.push((RSched { world: mk(1, Some(10), true), threads: 3, per_thread: 2, size: 24, chunks: 2, restart_after: None }, 2));
    }
    run_scheds(ctx, &mut rep, &hs);
    failing_roller(&mut rep, None);
    rep
}

/// A roller that counts its calls and fails those of a plan (bit k of `plan` = call k fails, file left in place).
#[derive(Debug)]
struct PlanRoller {
    calls: std::sync::Arc<std::sync::Mutex<Vec<u32>>>,
    at: std::sync::Arc<std::sync::atomic::AtomicU32>,
    plan: u32,
}

impl log4rs::append::rolling_file::policy::compound::roll::Roll for PlanRoller {
    fn roll(&self, file: &std::path::Path) -> anyhow::Result<()> {
        let mut c = self.calls.lock().unwrap();
        let k = c.len() as u32;
        c.push(self.at.load(std::sync::atomic::Ordering::SeqCst));
        if self.plan >> k & 1 == 1 {
            anyhow::bail!("planned failure of roll call #{}", k);
        }
        std::fs::remove_file(file)?;
        Ok(())
    }
}

/// Fault domain: the rotation requested at the first record *fails* (every subset of the first two roller calls
/// failing).  Whatever the roller answers, the trigger's request is spent: per appender lifetime the roller is
/// called at most once, and only while the first record is handled; no append panics.
fn failing_roller(rep: &mut Report, only: Option<&serde_json::Value>) {
    use log4rs::append::rolling_file::policy::compound::{trigger::onstartup::OnStartUpTrigger, CompoundPolicy};
    use log4rs::append::{rolling_file::RollingFileAppender, Append};
    use std::sync::{atomic::AtomicU32, atomic::Ordering, Arc, Mutex};
    for min in [0u64, 1, 5] {
        for pre in [None, Some(0usize), Some(4), Some(5), Some(6)] {
            for append in [true, false] {
                for plan in 0u32..4 {
                    let case = serde_json::json!({"kind": "failing-roller", "min_size": min, "pre": pre, "append": append, "plan": plan});
                    if let Some(o) = only {
                        if *o != case {
                            continue;
                        }
                    }
                    let sb = crate::engine::sandbox::Sandbox::new();
                    if let Some(n) = pre {
                        std::fs::write(sb.path("app.log"), "P".repeat(n)).unwrap();
                    }
                    let calls = Arc::new(Mutex::new(vec![]));
                    let at = Arc::new(AtomicU32::new(u32::MAX));
                    let roller = PlanRoller { calls: calls.clone(), at: at.clone(), plan };
                    let policy = CompoundPolicy::new(Box::new(OnStartUpTrigger::new(min)), Box::new(roller));
                    let app = match RollingFileAppender::builder().append(append).encoder(Box::new(log4rs::encode::pattern::PatternEncoder::new("{m}"))).build(sb.path("app.log"), Box::new(policy)) {
                        Ok(a) => a,
                        Err(e) => {
                            rep.violation("failing-roller:build-failed", e.to_string(), case.clone());
                            continue;
                        }
                    };
                    let mut history = vec![];
                    for k in 0..3u32 {
                        at.store(k, Ordering::SeqCst);
                        let text = format!("[r{}]", k);
                        let r = crate::engine::catch_panic(|| app.append(&log::Record::builder().level(log::Level::Info).args(format_args!("{}", text)).build()));
                        history.push(format!("append#{}={}", k, match &r { Ok(Ok(())) => "Ok".to_string(), Ok(Err(e)) => format!("Err({})", e), Err(p) => format!("panic({})", p) }));
                        if let Err(p) = r {
                            rep.violation(format!("failing-roller:panic:{}", crate::engine::panic_site(&p)), format!("{:?}", history), case.clone());
                            break;
                        }
                    }
                    let c = calls.lock().unwrap().clone();
                    rep.add("failing_roller_histories", 1);
                    rep.add("traces_validated_against_impl", 1);
                    if c.len() > 1 {
                        rep.violation(
                            "failing-roller:more-than-one-rotation-requested",
                            format!("min_size={} pre={:?} append={} failing roller calls (bit set)={:#b}: the roller was called {} times (during appends {:?}) in one appender lifetime; {:?}", min, pre, append, plan, c.len(), c, history),
                            case.clone(),
                        );
                    } else if c.iter().any(|k| *k != 0) {
                        rep.violation(
                            "failing-roller:rotation-requested-after-the-first-record",
                            format!("min_size={} pre={:?} append={} plan={:#b}: roller called during append #{:?}; {:?}", min, pre, append, plan, c, history),
                            case.clone(),
                        );
                    }
                }
            }
        }
    }
}

pub fn replay(case: &serde_json::Value) -> Result<(), String> {
    if case["kind"] == "failing-roller" {
        let mut rep = Report::new("model_checking");
        failing_roller(&mut rep, Some(case));
        return match rep.violations().first() {
            Some(v) => Err(format!("{}: {}", v.signature, v.detail)),
            None => Ok(()),
        };
    }
    if case["kind"] == "schedule" {
        return replay_sched_case(case);
    }
    replay_world_case(case)
}
