//! The rolling-file-appender "world" shared by C05, C06, C17 (and the E-SCHED / E-FAULT harnesses):
//! a reference model of appender + trigger + roller, and a replayer that drives the real
//! `RollingFileAppender` + `CompoundPolicy` and compares the complete observable state with the
//! model after every operation.

use crate::engine::{
    catch_panic,
    hist::HistSpec,
    hooks, panic_site,
    sandbox::{decode_by_ext, files, show_bytes, snapshot, Sandbox},
};
use chrono::{Local, TimeZone};
use log::{Level, Record};
use log4rs::{
    append::{
        rolling_file::{
            policy::{
                compound::{
                    roll::{delete::DeleteRoller, fixed_window::FixedWindowRoller, Roll},
                    trigger::{onstartup::OnStartUpTrigger, size::SizeTrigger, time::TimeTrigger, time::TimeTriggerConfig, Trigger},
                    CompoundPolicy,
                },
                Policy,
            },
            LogFile, RollingFileAppender,
        },
        Append,
    },
    encode::pattern::PatternEncoder,
};
use std::{
    collections::BTreeMap,
    sync::{
        atomic::{AtomicBool, Ordering},
        Arc, Mutex,
    },
};

pub const PRE: u32 = u32::MAX;

#[derive(Clone, Debug, PartialEq, Eq, Hash)]
pub enum Trig {
    Size(u64),
    OnStartup(u64),
    /// user-defined post-processing trigger, fires when armed
    ScriptPost,
    /// user-defined pre-processing trigger, fires when armed
    ScriptPre,
    /// real TimeTrigger, interval 1 hour, under the driven clock (a Tick is 30 minutes)
    TimeHourly,
}

impl Trig {
    pub fn is_pre(&self) -> bool {
        matches!(self, Trig::OnStartup(_) | Trig::ScriptPre | Trig::TimeHourly)
    }
}

#[derive(Clone, Debug, PartialEq, Eq, Hash)]
pub enum RollerK {
    Delete,
    Fixed { base: u32, count: u32, ext: &'static str },
}

#[derive(Clone, Debug)]
pub struct World {
    pub append: bool,
    pub trig: Trig,
    pub roller: RollerK,
    /// size of the file that exists before the first appender is built
    pub pre: Option<u32>,
    /// record size alphabet (bytes)
    pub sizes: Vec<u32>,
    pub multibyte: bool,
    pub restart: bool,
}

impl World {
    pub fn describe(&self) -> String {
        format!(
            "{} {:?} {:?} pre={:?} sizes={:?}{}{}",
            if self.append { "append" } else { "truncate" },
            self.trig,
            self.roller,
            self.pre,
            self.sizes,
            if self.multibyte { " multibyte" } else { "" },
            if self.restart { " +restart" } else { "" }
        )
    }
}

#[derive(Clone, Debug, PartialEq, Eq, Hash)]
pub enum Op {
    Append(u32),
    Restart,
    Arm,
    Tick,
}

pub fn op_json(op: &Op) -> serde_json::Value {
    match op {
        Op::Append(n) => serde_json::json!({"append": n}),
        Op::Restart => serde_json::json!("restart"),
        Op::Arm => serde_json::json!("arm"),
        Op::Tick => serde_json::json!("tick"),
    }
}

pub fn op_from_json(v: &serde_json::Value) -> Option<Op> {
    if let Some(n) = v.get("append") {
        return Some(Op::Append(n.as_u64()? as u32));
    }
    match v.as_str()? {
        "restart" => Some(Op::Restart),
        "arm" => Some(Op::Arm),
        "tick" => Some(Op::Tick),
        _ => None,
    }
}

/// (size in bytes, label = index of the operation that wrote it, PRE for pre-existing content)
pub type Rec = (u32, u32);

#[derive(Clone, Debug)]
pub struct MState {
    pub archives: BTreeMap<u32, Vec<Rec>>,
    pub active: Option<Vec<Rec>>,
    pub first_done: bool,
    pub armed: bool,
    /// minutes since the top of the hour in which the world started
    pub now_min: i64,
    pub next_roll: i64,
    pub nops: u32,
    /// every acknowledged record in write order (not part of the key)
    pub acked: Vec<Rec>,
    /// what the policy was shown at the last operation: (length, fired)
    pub consult: Option<(u64, bool)>,
    /// a second length the policy may have been shown at the last operation.  Once an on-start-up
    /// trigger has made its one decision, no property says whether later consultations come before or
    /// after the record is written (both show the true size of the file at that moment).
    pub consult_alt: Option<u64>,
}

pub fn payload(label: u32, size: u32, multibyte: bool) -> Vec<u8> {
    let size = size as usize;
    if size == 0 {
        return vec![];
    }
    let letter = (b'a' + (label % 26) as u8) as char;
    let head = if label == PRE { "P".to_string() } else { format!("[{}", label) };
    if size < head.len() + 1 {
        return std::iter::repeat(if label == PRE { 'P' } else { letter }).take(size).collect::<String>().into_bytes();
    }
    let mut s = head;
    let rest = size - s.len() - 1;
    if multibyte {
        for _ in 0..rest / 2 {
            s.push('é');
        }
        if rest % 2 == 1 {
            s.push(letter);
        }
    } else {
        for _ in 0..rest {
            s.push(letter);
        }
    }
    s.push(if label == PRE { '\n' } else { ']' });
    debug_assert_eq!(s.len(), size);
    s.into_bytes()
}

fn len_of(f: &Option<Vec<Rec>>) -> u64 {
    f.as_ref().map_or(0, |v| v.iter().map(|r| r.0 as u64).sum())
}

impl World {
    pub fn active_rel(&self) -> &'static str {
        "app.log"
    }

    pub fn archive_rel(&self, idx: u32) -> String {
        match &self.roller {
            RollerK::Fixed { ext, .. } => format!("arch/app.{}.log{}", idx, ext),
            RollerK::Delete => unreachable!(),
        }
    }

    fn model_roll(&self, st: &mut MState) {
        let content = st.active.take().unwrap_or_default();
        match &self.roller {
            RollerK::Delete => {}
            RollerK::Fixed { base, count, .. } => {
                if *count == 0 {
                    return;
                }
                for i in (*base..*base + *count - 1).rev() {
                    if let Some(c) = st.archives.remove(&i) {
                        st.archives.insert(i + 1, c);
                    }
                }
                st.archives.insert(*base, content);
            }
        }
    }

    fn decide(&self, st: &mut MState, len: u64) -> bool {
        match &self.trig {
            Trig::Size(n) => len > *n,
            Trig::OnStartup(min) => {
                if st.first_done {
                    false
                } else {
                    st.first_done = true;
                    len >= *min
                }
            }
            Trig::ScriptPost | Trig::ScriptPre => std::mem::replace(&mut st.armed, false),
            Trig::TimeHourly => {
                if st.now_min >= st.next_roll {
                    st.next_roll = (st.now_min.div_euclid(60) + 1) * 60;
                    true
                } else {
                    false
                }
            }
        }
    }

    fn open(&self, st: &mut MState) {
        // a new appender object is built over whatever is on disk
        st.active = Some(if self.append { st.active.take().unwrap_or_default() } else { vec![] });
        st.first_done = false;
        st.armed = false;
        st.next_roll = (st.now_min.div_euclid(60) + 1) * 60;
    }

    pub fn model_init(&self) -> MState {
        let mut st = MState {
            archives: BTreeMap::new(),
            active: self.pre.map(|n| vec![(n, PRE)]),
            first_done: false,
            armed: false,
            now_min: 15,
            next_roll: 0,
            nops: 0,
            acked: vec![],
            consult: None,
            consult_alt: None,
        };
        if self.append {
            if let Some(n) = self.pre {
                st.acked.push((n, PRE));
            }
        }
        self.open(&mut st);
        st
    }

    pub fn model_step(&self, s: &MState, op: &Op) -> MState {
        let mut st = s.clone();
        st.consult = None;
        st.consult_alt = None;
        let label = st.nops;
        st.nops += 1;
        match op {
            Op::Tick => st.now_min += 30,
            Op::Arm => st.armed = true,
            Op::Restart => self.open(&mut st),
            Op::Append(size) => {
                if st.active.is_none() {
                    st.active = Some(vec![]);
                }
                let rec = (*size, label);
                if self.trig.is_pre() {
                    let len = len_of(&st.active);
                    let decided_before = matches!(self.trig, Trig::OnStartup(_)) && st.first_done;
                    let fire = self.decide(&mut st, len);
                    st.consult = Some((len, fire));
                    if decided_before {
                        st.consult_alt = Some(len + *size as u64);
                    }
                    if fire {
                        self.model_roll(&mut st);
                        st.active = Some(vec![]);
                    }
                    st.active.as_mut().unwrap().push(rec);
                } else {
                    st.active.as_mut().unwrap().push(rec);
                    let len = len_of(&st.active);
                    let fire = self.decide(&mut st, len);
                    st.consult = Some((len, fire));
                    if fire {
                        self.model_roll(&mut st);
                    }
                }
                st.acked.push(rec);
            }
        }
        st
    }

    pub fn model_ops(&self, _s: &MState) -> Vec<Op> {
        let mut v: Vec<Op> = self.sizes.iter().map(|n| Op::Append(*n)).collect();
        if self.restart {
            v.push(Op::Restart);
        }
        if matches!(self.trig, Trig::ScriptPost | Trig::ScriptPre) {
            v.push(Op::Arm);
        }
        if self.trig == Trig::TimeHourly {
            v.push(Op::Tick);
        }
        v
    }

    /// the files the model expects on disk: relative name -> decoded bytes
    pub fn model_files(&self, st: &MState) -> BTreeMap<String, Vec<u8>> {
        let bytes = |v: &Vec<Rec>| -> Vec<u8> { v.iter().flat_map(|(size, label)| payload(*label, *size, self.multibyte)).collect() };
        let mut m = BTreeMap::new();
        if let Some(a) = &st.active {
            m.insert(self.active_rel().to_string(), bytes(a));
        }
        for (i, c) in &st.archives {
            m.insert(self.archive_rel(*i), bytes(c));
        }
        m
    }
}

pub type KeyT = (Vec<(u32, Vec<u32>)>, Option<Vec<u32>>, bool, bool, i64, i64);

pub fn model_key(st: &MState) -> KeyT {
    (
        st.archives.iter().map(|(i, v)| (*i, v.iter().map(|r| r.0).collect())).collect(),
        st.active.as_ref().map(|v| v.iter().map(|r| r.0).collect()),
        st.first_done,
        st.armed,
        st.now_min.rem_euclid(60),
        st.next_roll - st.now_min,
    )
}

// --------------------------------------------------------------------------- the real side

#[derive(Clone, Debug)]
pub struct Consult {
    pub seen: u64,
    pub true_len: Option<u64>,
    pub rolled: bool,
    pub err: Option<String>,
}

#[derive(Debug)]
struct Observing {
    inner: CompoundPolicy,
    log: Arc<Mutex<Vec<Consult>>>,
}

impl Policy for Observing {
    fn process(&self, log: &mut LogFile) -> anyhow::Result<()> {
        crate::engine::sched::yield_now();
        let seen = log.len_estimate();
        let true_len = std::fs::metadata(log.path()).ok().map(|m| m.len());
        let path = log.path().to_path_buf();
        let r = self.inner.process(log);
        self.log.lock().unwrap().push(Consult { seen, true_len, rolled: !path.exists(), err: r.as_ref().err().map(|e| e.to_string()) });
        r
    }
    fn is_pre_process(&self) -> bool {
        self.inner.is_pre_process()
    }
}

#[derive(Debug)]
pub struct ScriptTrigger {
    pub armed: Arc<AtomicBool>,
    pub pre: bool,
}

impl Trigger for ScriptTrigger {
    fn trigger(&self, _file: &LogFile) -> anyhow::Result<bool> {
        Ok(self.armed.swap(false, Ordering::SeqCst))
    }
    fn is_pre_process(&self) -> bool {
        self.pre
    }
}

pub fn clock_at(now_min: i64) -> chrono::DateTime<Local> {
    Local.with_ymd_and_hms(2024, 3, 5, 10, 0, 0).unwrap() + chrono::Duration::minutes(now_min)
}

pub struct Real {
    pub sb: Sandbox,
    pub appender: Option<RollingFileAppender>,
    pub consults: Arc<Mutex<Vec<Consult>>>,
    pub armed: Arc<AtomicBool>,
}

impl World {
    pub fn build_roller(&self, sb: &Sandbox) -> Box<dyn Roll> {
        match &self.roller {
            RollerK::Delete => Box::new(DeleteRoller::new()),
            RollerK::Fixed { base, count, ext } => Box::new(
                FixedWindowRoller::builder()
                    .base(*base)
                    .build(&format!("{}/arch/app.{{}}.log{}", sb.dir.display(), ext), *count)
                    .expect("roller"),
            ),
        }
    }

    pub fn build_trigger(&self, armed: &Arc<AtomicBool>) -> Box<dyn Trigger> {
        match &self.trig {
            Trig::Size(n) => Box::new(SizeTrigger::new(*n)),
            Trig::OnStartup(n) => Box::new(OnStartUpTrigger::new(*n)),
            Trig::ScriptPost => Box::new(ScriptTrigger { armed: armed.clone(), pre: false }),
            Trig::ScriptPre => Box::new(ScriptTrigger { armed: armed.clone(), pre: true }),
            Trig::TimeHourly => {
                let cfg: TimeTriggerConfig = serde_yaml::from_str("interval: 1 hour").expect("time trigger config");
                Box::new(TimeTrigger::new(cfg))
            }
        }
    }

    pub fn build_appender(&self, sb: &Sandbox, consults: &Arc<Mutex<Vec<Consult>>>, armed: &Arc<AtomicBool>) -> Result<RollingFileAppender, String> {
        self.build_appender_with(sb, consults, armed, Box::new(PatternEncoder::new("{m}")))
    }

    pub fn build_appender_with(&self, sb: &Sandbox, consults: &Arc<Mutex<Vec<Consult>>>, armed: &Arc<AtomicBool>, encoder: Box<dyn log4rs::encode::Encode>) -> Result<RollingFileAppender, String> {
        armed.store(false, Ordering::SeqCst);
        let policy = Observing { inner: CompoundPolicy::new(self.build_trigger(armed), self.build_roller(sb)), log: consults.clone() };
        RollingFileAppender::builder().append(self.append).encoder(encoder).build(sb.path(self.active_rel()), Box::new(policy)).map_err(|e| e.to_string())
    }

    pub fn real_init(&self, st: &MState) -> Result<Real, (String, String)> {
        let sb = Sandbox::new();
        if let Some(n) = self.pre {
            std::fs::write(sb.path(self.active_rel()), payload(PRE, n, self.multibyte)).unwrap();
        }
        hooks::set_now(Some(clock_at(st.now_min)));
        let consults = Arc::new(Mutex::new(vec![]));
        let armed = Arc::new(AtomicBool::new(false));
        let appender = match catch_panic(|| self.build_appender(&sb, &consults, &armed)) {
            Ok(Ok(a)) => a,
            Ok(Err(e)) => return Err(("build-failed".into(), e)),
            Err(p) => return Err((format!("panic-build:{}", panic_site(&p)), p)),
        };
        Ok(Real { sb, appender: Some(appender), consults, armed })
    }

    /// executes one operation on the real appender; `label` is the record label the model assigns
    pub fn real_step(&self, real: &mut Real, op: &Op, label: u32, st_after: &MState) -> Result<(), (String, String)> {
        hooks::set_now(Some(clock_at(st_after.now_min)));
        real.consults.lock().unwrap().clear();
        match op {
            Op::Tick => {}
            Op::Arm => real.armed.store(true, Ordering::SeqCst),
            Op::Restart => {
                real.appender = None;
                match catch_panic(|| self.build_appender(&real.sb, &real.consults, &real.armed)) {
                    Ok(Ok(a)) => real.appender = Some(a),
                    Ok(Err(e)) => return Err(("restart-failed".into(), e)),
                    Err(p) => return Err((format!("panic-restart:{}", panic_site(&p)), p)),
                }
            }
            Op::Append(size) => {
                let bytes = payload(label, *size, self.multibyte);
                let text = String::from_utf8(bytes).unwrap();
                let app = real.appender.as_ref().unwrap();
                let r = catch_panic(|| app.append(&Record::builder().level(Level::Info).target("t").args(format_args!("{}", text)).build()));
                match r {
                    Err(p) => return Err((format!("panic-append:{}", panic_site(&p)), p)),
                    Ok(Err(e)) => return Err(("append-error".into(), format!("append returned an error although nothing was injected: {}", e))),
                    Ok(Ok(())) => {}
                }
            }
        }
        Ok(())
    }

    /// compares the real directory and the policy consultations with the model state
    pub fn compare(&self, real: &Real, st: &MState) -> Result<(), (String, String)> {
        wait_quiescent(&real.sb.dir);
        let snap = files(&snapshot(&real.sb.dir));
        let mut got: BTreeMap<String, Vec<u8>> = BTreeMap::new();
        for (name, bytes) in &snap {
            match decode_by_ext(name, bytes) {
                Ok(b) => {
                    got.insert(name.clone(), b);
                }
                Err(e) => return Err(("archive:corrupt-compressed-file".into(), format!("{} does not decompress: {}", name, e))),
            }
        }
        // consultations
        let consults = real.consults.lock().unwrap().clone();
        match (&st.consult, consults.as_slice()) {
            (None, []) => {}
            (Some((len, fire)), [c]) => {
                if let Some(e) = &c.err {
                    return Err(("policy-error".into(), e.clone()));
                }
                if c.true_len.is_some() && c.true_len != Some(c.seen) {
                    return Err((
                        "size-accounting:len_estimate-differs-from-file-size".into(),
                        format!("the policy was shown len_estimate()={} while the active file holds {:?} bytes", c.seen, c.true_len),
                    ));
                }
                if c.seen != *len && Some(c.seen) != st.consult_alt {
                    return Err(("size-accounting:len_estimate-differs-from-model".into(), format!("the policy was shown {} bytes, the model says {}", c.seen, len)));
                }
                if c.rolled != *fire {
                    let sig = match (&self.trig, *fire) {
                        (_, true) => "trigger:did-not-roll",
                        (_, false) => "trigger:rolled-when-it-must-not",
                    };
                    return Err((sig.into(), format!("with {} bytes in the active file the policy rolled={} but the reference says {}", c.seen, c.rolled, fire)));
                }
            }
            (want, got) => {
                return Err((
                    "policy:consultation-count".into(),
                    format!("the policy was consulted {} times during this operation, the reference expects {}", got.len(), if want.is_some() { 1 } else { 0 }),
                ))
            }
        }
        let mut want = self.model_files(st);
        // An absent active file and an empty one hold the same records (none): no property says which
        // of the two a rotation leaves behind, so the comparison does not distinguish them.
        let active = self.active_rel().to_string();
        if got.get(&active).map_or(false, |b| b.is_empty()) {
            got.remove(&active);
        }
        if want.get(&active).map_or(false, |b| b.is_empty()) {
            want.remove(&active);
        }
        if got != want {
            // classify
            for (name, w) in &want {
                match got.get(name) {
                    None => return Err(("files:missing".into(), format!("{} is missing (expected {:?}); directory holds {:?}", name, show_bytes(w), got.keys().collect::<Vec<_>>()))),
                    Some(g) if g != w => {
                        let sig = if name == self.active_rel() { "files:active-content" } else { "files:archive-content" };
                        return Err((sig.into(), format!("{} holds {:?}, the reference says {:?}", name, show_bytes(g), show_bytes(w))));
                    }
                    _ => {}
                }
            }
            for name in got.keys() {
                if !want.contains_key(name) {
                    return Err(("files:unexpected".into(), format!("unexpected file {} ({:?})", name, show_bytes(&got[name]))));
                }
            }
        }
        Ok(())
    }

    /// The stream property on the real directory, independent of the model's file layout:
    /// archives oldest→newest followed by the active file must be a suffix of the acknowledged
    /// stream that starts at a record boundary, and every file boundary is a record boundary.
    pub fn stream_check(&self, real: &Real, st: &MState) -> Result<(), (String, String)> {
        wait_quiescent(&real.sb.dir);
        let snap = files(&snapshot(&real.sb.dir));
        let mut order: Vec<String> = vec![];
        if let RollerK::Fixed { base, count, .. } = &self.roller {
            for i in (*base..*base + *count).rev() {
                order.push(self.archive_rel(i));
            }
        }
        order.push(self.active_rel().to_string());
        let total: Vec<u8> = st.acked.iter().flat_map(|(s, l)| payload(*l, *s, self.multibyte)).collect();
        let mut bounds = std::collections::BTreeSet::new();
        let mut off = 0usize;
        bounds.insert(0);
        for (s, _) in &st.acked {
            off += *s as usize;
            bounds.insert(off);
        }
        let mut b: Vec<u8> = vec![];
        let mut cuts = vec![];
        for name in &order {
            if let Some(raw) = snap.get(name) {
                let dec = decode_by_ext(name, raw).map_err(|e| ("archive:corrupt-compressed-file".to_string(), format!("{}: {}", name, e)))?;
                b.extend_from_slice(&dec);
                cuts.push(b.len());
            }
        }
        if !total.ends_with(&b) {
            return Err((
                "stream:records-lost-duplicated-or-reordered".into(),
                format!("archives oldest->newest ++ active = {:?}, which is not a suffix of the acknowledged stream {:?}", show_bytes(&b), show_bytes(&total)),
            ));
        }
        let start = total.len() - b.len();
        if !bounds.contains(&start) {
            return Err(("stream:record-split".into(), format!("the retained data starts in the middle of a record (offset {})", start)));
        }
        for c in cuts {
            if !bounds.contains(&(start + c)) {
                return Err(("stream:record-split".into(), format!("a file boundary falls inside a record (stream offset {})", start + c)));
            }
        }
        Ok(())
    }
}

/// With the `background_rotation` feature the roller parks the rolled file under a temporary name and
/// rotates in a thread of its own.  Histories (E-HIST) observe the directory only when no such thread is
/// alive any more: the shimmed `thread::spawn` reports creation and end of every library thread to the
/// hooks, so this does not depend on how the temporary file is called.  (The interleavings of those
/// threads are explored separately, by E-SCHED.)
pub fn wait_quiescent(_dir: &std::path::Path) {
    if !cfg!(feature = "background_rotation") {
        return;
    }
    let start = std::time::Instant::now();
    while crate::engine::hooks::live_spawned_threads() > 0 {
        if start.elapsed() > std::time::Duration::from_secs(20) {
            eprintln!("MACHINERY FAILURE: a background rotation thread did not finish within 20 s");
            std::process::exit(2);
        }
        std::thread::sleep(std::time::Duration::from_micros(100));
    }
}

/// E-HIST specification of one world
pub struct RollingSpec {
    pub world: World,
    /// also check the layout-independent stream property in every state
    pub stream: bool,
}

impl HistSpec for RollingSpec {
    type Op = Op;
    type State = MState;
    type Key = KeyT;

    fn init(&self) -> MState {
        self.world.model_init()
    }
    fn ops(&self, s: &MState) -> Vec<Op> {
        self.world.model_ops(s)
    }
    fn step(&self, s: &MState, op: &Op) -> MState {
        self.world.model_step(s, op)
    }
    fn key(&self, s: &MState) -> KeyT {
        model_key(s)
    }
    fn conform(&self, path: &[Op]) -> Result<(), (String, String)> {
        let w = &self.world;
        let mut st = w.model_init();
        let r = (|| {
            let mut real = w.real_init(&st)?;
            w.compare(&real, &st)?;
            for op in path {
                let label = st.nops;
                let next = w.model_step(&st, op);
                w.real_step(&mut real, op, label, &next)?;
                st = next;
                w.compare(&real, &st)?;
                if self.stream {
                    w.stream_check(&real, &st)?;
                }
            }
            Ok(())
        })();
        hooks::set_now(None);
        r
    }
}

// --------------------------------------------------------------------------- shared runner

use crate::engine::{hist, Ctx, Report};

pub fn world_json(w: &World) -> serde_json::Value {
    serde_json::json!({
        "append": w.append,
        "trigger": match &w.trig { Trig::Size(n) => format!("size:{}", n), Trig::OnStartup(n) => format!("onstartup:{}", n), Trig::ScriptPost => "script-post".into(), Trig::ScriptPre => "script-pre".into(), Trig::TimeHourly => "time-hourly".into() },
        "roller": match &w.roller { RollerK::Delete => "delete".to_string(), RollerK::Fixed { base, count, ext } => format!("fixed:{}:{}:{}", base, count, ext) },
        "pre": w.pre, "sizes": w.sizes, "multibyte": w.multibyte, "restart": w.restart,
    })
}

pub fn world_from_json(v: &serde_json::Value) -> Option<World> {
    let t = v["trigger"].as_str()?;
    let trig = if let Some(n) = t.strip_prefix("size:") {
        Trig::Size(n.parse().ok()?)
    } else if let Some(n) = t.strip_prefix("onstartup:") {
        Trig::OnStartup(n.parse().ok()?)
    } else {
        match t {
            "script-post" => Trig::ScriptPost,
            "script-pre" => Trig::ScriptPre,
            _ => Trig::TimeHourly,
        }
    };
    let r = v["roller"].as_str()?;
    let roller = if r == "delete" {
        RollerK::Delete
    } else {
        let p: Vec<&str> = r.split(':').collect();
        let ext: &'static str = match *p.get(3)? {
            ".gz" => ".gz",
            ".zst" => ".zst",
            _ => "",
        };
        RollerK::Fixed { base: p.get(1)?.parse().ok()?, count: p.get(2)?.parse().ok()?, ext }
    };
    Some(World {
        append: v["append"].as_bool()?,
        trig,
        roller,
        pre: v["pre"].as_u64().map(|n| n as u32),
        sizes: v["sizes"].as_array()?.iter().filter_map(|x| x.as_u64().map(|n| n as u32)).collect(),
        multibyte: v["multibyte"].as_bool().unwrap_or(false),
        restart: v["restart"].as_bool().unwrap_or(false),
    })
}

/// explores every world to `depth`, merging statistics and violations into the report
pub fn run_worlds(ctx: &Ctx, rep: &mut Report, worlds: &[World], depth: usize) {
    let mut notes = vec![];
    let mut complete = true;
    for (wi, w) in worlds.iter().enumerate() {
        let stream = w.append || !w.restart;
        let spec = RollingSpec { world: w.clone(), stream };
        let (stats, viols) = hist::explore(&spec, depth, ctx);
        rep.add("states", stats.states);
        rep.add("transitions", stats.transitions);
        rep.add("traces_validated_against_impl", stats.replays);
        let md = rep.get("max_depth").max(stats.max_depth);
        rep.set("max_depth", md);
        complete &= stats.complete;
        notes.push(format!("{}: states={} transitions={} depth={}{}", w.describe(), stats.states, stats.transitions, stats.max_depth, if stats.complete { "" } else { " (cap hit)" }));
        for v in viols {
            rep.violation(
                v.signature,
                format!("[{}] after {:?}: {}", w.describe(), v.path, v.detail),
                serde_json::json!({"world": world_json(w), "path": v.path.iter().map(op_json).collect::<Vec<_>>()}),
            );
        }
        if wi % 7 == (ctx.seed as usize) % 7 && stats.max_depth > 0 {
            // a sample path: the first operation sequence of maximal depth in this world
            let mut st = w.model_init();
            let mut path = vec![];
            for k in 0..depth.min(4) {
                let ops = w.model_ops(&st);
                let op = ops[(k + wi) % ops.len()].clone();
                st = w.model_step(&st, &op);
                path.push(op_json(&op));
            }
            rep.sample(serde_json::json!({"world": w.describe(), "path": path, "model_files_after": w.model_files(&st).iter().map(|(k, v)| (k.clone(), v.len())).collect::<BTreeMap<_, _>>()}));
        }
    }
    rep.set("worlds", serde_json::json!(notes));
    rep.set("depth_bound", depth as u64);
    rep.set("exhaustive", complete);
}

pub fn replay_world_case(case: &serde_json::Value) -> Result<(), String> {
    let w = world_from_json(&case["world"]).ok_or("bad world")?;
    let path: Vec<Op> = case["path"].as_array().ok_or("bad path")?.iter().filter_map(op_from_json).collect();
    let stream = w.append || !w.restart;
    let spec = RollingSpec { world: w, stream };
    spec.conform(&path).map_err(|(s, d)| format!("{}: {}", s, d))
}

// --------------------------------------------------------------------------- E-SCHED harness

use crate::engine::sched;
use super::c04::{payload as tpayload, ChunkEncoder};

#[derive(Clone, Debug)]
pub struct RSched {
    pub world: World,
    pub threads: usize,
    pub per_thread: usize,
    pub size: usize,
    pub chunks: usize,
    /// thread 0 drops the appender after this many of its appends and goes on with a fresh one built on
    /// the same path (an in-process restart, e.g. a configuration reload); single-writer harnesses only
    pub restart_after: Option<usize>,
}

impl RSched {
    pub fn describe(&self) -> String {
        format!(
            "{} | {} threads x {} appends of {} bytes in {} chunks{}",
            self.world.describe(),
            self.threads,
            self.per_thread,
            self.size,
            self.chunks,
            self.restart_after.map_or(String::new(), |k| format!(", appender dropped and rebuilt after {} appends", k))
        )
    }
}

/// One controlled execution of concurrent appends to one real rolling appender.
pub fn rsched_exec(h: &RSched, prefix: &[usize]) -> (sched::Execution, Result<String, (String, String)>) {
    let w = &h.world;
    let sb = Arc::new(Sandbox::new());
    if let Some(n) = w.pre {
        std::fs::write(sb.path(w.active_rel()), payload(PRE, n, false)).unwrap();
    }
    let consults = Arc::new(Mutex::new(vec![]));
    let armed = Arc::new(AtomicBool::new(false));
    let app = match w.build_appender_with(&sb, &consults, &armed, Box::new(ChunkEncoder { chunks: h.chunks })) {
        Ok(a) => Arc::new(a),
        Err(e) => return (sched::Execution { points: vec![], deadlock: false, aborted: None, panics: vec![] }, Err(("build-failed".into(), e))),
    };
    let notes: Arc<Mutex<Vec<String>>> = Arc::new(Mutex::new(vec![]));
    let mut bodies: Vec<Box<dyn FnOnce() + Send>> = vec![];
    if let (Some(k), 1) = (h.restart_after, h.threads) {
        // single writer with an in-process restart: the only reference to the appender moves into the body
        let notes = notes.clone();
        let (per, size, chunks) = (h.per_thread, h.size, h.chunks);
        let (w2, sb2, consults2, armed2) = (w.clone(), sb.clone(), consults.clone(), armed.clone());
        let mut app = Some(app);
        bodies.push(Box::new(move || {
            for r in 0..per {
                if r == k {
                    drop(app.take());
                    match w2.build_appender_with(&sb2, &consults2, &armed2, Box::new(ChunkEncoder { chunks })) {
                        Ok(a) => app = Some(Arc::new(a)),
                        Err(e) => {
                            notes.lock().unwrap().push(format!("rebuild-failed:{}", e));
                            return;
                        }
                    }
                }
                let text = tpayload(&format!("t0r{}", r), size);
                if let Err(e) = app.as_ref().unwrap().append(&Record::builder().level(Level::Info).args(format_args!("{}", text)).build()) {
                    notes.lock().unwrap().push(format!("append-error:t0r{}:{}", r, e));
                }
            }
        }));
    } else {
        for t in 0..h.threads {
            let app = app.clone();
            let notes = notes.clone();
            let (per, size) = (h.per_thread, h.size);
            bodies.push(Box::new(move || {
                for r in 0..per {
                    let text = tpayload(&format!("t{}r{}", t, r), size);
                    if let Err(e) = app.append(&Record::builder().level(Level::Info).args(format_args!("{}", text)).build()) {
                        notes.lock().unwrap().push(format!("append-error:t{}r{}:{}", t, r, e));
                    }
                }
            }));
        }
        drop(app);
    }
    let ex = sched::run_schedule(bodies, prefix, std::time::Duration::from_secs(20));
    if let Some(p) = ex.panics.first() {
        return (ex.clone(), Err((format!("panic:{}", panic_site(p)), p.clone())));
    }
    if ex.deadlock {
        return (ex.clone(), Err(("deadlock".into(), ex.aborted.clone().unwrap_or_default())));
    }
    if ex.aborted.is_some() {
        return (ex, Ok("aborted".into()));
    }
    if let Some(n) = notes.lock().unwrap().first() {
        return (ex, Err(("concurrent:append-error".into(), n.clone())));
    }
    // judge: every file is a sequence of whole records; oldest->newest ++ active holds every record exactly once in per-thread order
    let snap = files(&snapshot(&sb.dir));
    let mut order_files: Vec<String> = vec![];
    if let RollerK::Fixed { base, count, .. } = &w.roller {
        for i in (*base..*base + *count).rev() {
            order_files.push(w.archive_rel(i));
        }
    }
    order_files.push(w.active_rel().to_string());
    let pre_bytes = w.pre.map(|n| payload(PRE, n, false)).unwrap_or_default();
    let mut next = vec![0usize; h.threads];
    let mut layout = vec![];
    let mut pre_seen = pre_bytes.is_empty() || !w.append;
    let mut consults_n = 0;
    for name in &order_files {
        let raw = match snap.get(name) {
            Some(r) => r,
            None => continue,
        };
        let dec = match decode_by_ext(name, raw) {
            Ok(d) => d,
            Err(e) => return (ex, Err(("archive:corrupt-compressed-file".into(), format!("{}: {}", name, e)))),
        };
        let mut rest: &[u8] = &dec;
        let mut here = vec![];
        if !pre_seen && rest.starts_with(&pre_bytes) {
            rest = &rest[pre_bytes.len()..];
            pre_seen = true;
            here.push("PRE".to_string());
        }
        'outer: while !rest.is_empty() {
            for t in 0..h.threads {
                if next[t] < h.per_thread {
                    let text = tpayload(&format!("t{}r{}", t, next[t]), h.size);
                    if rest.starts_with(text.as_bytes()) {
                        rest = &rest[text.len()..];
                        here.push(format!("t{}r{}", t, next[t]));
                        next[t] += 1;
                        continue 'outer;
                    }
                }
            }
            return (
                ex,
                Err((
                    "concurrent:record-split-interleaved-duplicated-or-reordered".into(),
                    format!("{} continues with {:?} after {:?}, which is not the next whole record of any thread (files so far {:?})", name, show_bytes(&rest[..rest.len().min(50)]), here, layout),
                )),
            );
        }
        consults_n += 1;
        layout.push(format!("{}=[{}]", name, here.join(" ")));
    }
    let _ = consults_n;
    for name in snap.keys() {
        if !order_files.contains(name) {
            return (ex, Err(("files:unexpected".into(), format!("unexpected file {}", name))));
        }
    }
    if next.iter().any(|n| *n < h.per_thread) || !pre_seen {
        return (ex, Err(("concurrent:record-lost".into(), format!("records missing; files: {:?}", layout))));
    }
    // trigger-specific expectations that hold for every schedule
    match &w.trig {
        Trig::OnStartup(min) => {
            let rolled = consults.lock().unwrap().iter().filter(|c: &&Consult| c.rolled).count();
            let want = if w.pre.map_or(0, |n| n as u64) >= *min && (w.append || *min == 0) { 1 } else { 0 };
            if rolled != want {
                return (ex, Err(("onstartup:rotation-count".into(), format!("{} rotations in this appender lifetime, expected {}; files {:?}", rolled, want, layout))));
            }
            let firsts: Vec<bool> = consults.lock().unwrap().iter().map(|c| c.rolled).collect();
            if firsts.iter().skip(1).any(|r| *r) {
                return (ex, Err(("onstartup:rolled-after-first-record".into(), format!("rotation decisions per record {:?}", firsts))));
            }
        }
        Trig::Size(n) => {
            for c in consults.lock().unwrap().iter() {
                if c.true_len.is_some() && c.true_len != Some(c.seen) {
                    return (ex, Err(("size-accounting:len_estimate-differs-from-file-size".into(), format!("seen {} true {:?}", c.seen, c.true_len))));
                }
                if c.rolled != (c.seen > *n) {
                    return (ex, Err(("trigger:size-decision".into(), format!("len {} limit {} rolled {}", c.seen, n, c.rolled))));
                }
            }
        }
        _ => {}
    }
    (ex, Ok(layout.join(" | ")))
}

pub fn run_scheds(ctx: &Ctx, rep: &mut Report, hs: &[(RSched, usize)]) {
    let mut notes = vec![];
    for (h, bound) in hs {
        let (stats, outcomes, viols) = sched::explore(*bound, |p| rsched_exec(h, p), &|| ctx.over_cap());
        rep.add("schedules_executed", stats.schedules);
        rep.add("schedules_reexecuted_for_determinism", stats.reexecuted);
        rep.add("schedule_reexecutions_diverged", stats.diverged);
        rep.add("distinct_schedule_outcomes", outcomes.len() as u64);
        if !stats.complete {
            rep.set("exhaustive", false);
        }
        notes.push(format!("{}: schedules={} preemption bound {} (by preemptions {:?}) max points {} distinct outcomes {}", h.describe(), stats.schedules, bound, stats.by_preemptions, stats.max_points, outcomes.len()));
        rep.sample(serde_json::json!({"harness": h.describe(), "outcomes": outcomes.keys().take(3).collect::<Vec<_>>()}));
        for (sig, detail, choices) in viols {
            if sig == "MACHINERY" {
                eprintln!("MACHINERY FAILURE: {}", detail);
                std::process::exit(2);
            }
            rep.violation(
                sig,
                format!("[{}] schedule {:?}: {}", h.describe(), choices, detail),
                serde_json::json!({"kind": "schedule", "world": world_json(&h.world), "threads": h.threads, "per_thread": h.per_thread, "size": h.size, "chunks": h.chunks, "restart_after": h.restart_after, "schedule": choices}),
            );
        }
    }
    rep.set("schedule_explorations", serde_json::json!(notes));
}

pub fn replay_sched_case(case: &serde_json::Value) -> Result<(), String> {
    let w = world_from_json(&case["world"]).ok_or("bad world")?;
    let h = RSched { world: w, threads: case["threads"].as_u64().unwrap_or(2) as usize, per_thread: case["per_thread"].as_u64().unwrap_or(1) as usize, size: case["size"].as_u64().unwrap_or(24) as usize, chunks: case["chunks"].as_u64().unwrap_or(2) as usize, restart_after: case["restart_after"].as_u64().map(|k| k as usize) };
    let sch: Vec<usize> = case["schedule"].as_array().ok_or("bad schedule")?.iter().filter_map(|x| x.as_u64().map(|n| n as usize)).collect();
    let (_, verdict) = rsched_exec(&h, &sch);
    verdict.map(|_| ()).map_err(|(s, d)| format!("{}: {}", s, d))
}
