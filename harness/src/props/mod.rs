pub mod routing;
pub mod c01;
pub mod c02;
pub mod c03;
pub mod c04;
pub mod c05;
pub mod c06;
pub mod c07;
pub mod c08;
pub mod c17;
pub mod c18;
pub mod rolling;
pub mod c09;
pub mod c10;
pub mod c11;
pub mod c12;
pub mod c13;
pub mod c14;
pub mod c15;
pub mod c16;
pub mod c19;
pub mod c20;

use crate::engine::{Ctx, Report};

pub fn run(ctx: &Ctx) -> Option<Report> {
    Some(match ctx.id.as_str() {
        "C01" => c01::run(ctx),
        "C02" => c02::run(ctx),
        "C03" => c03::run(ctx),
        "C04" => c04::run(ctx),
        "C05" => c05::run(ctx),
        "C06" => c06::run(ctx),
        "C14" => c14::run(ctx),
        "C15" => c15::run(ctx),
        "C16" => c16::run(ctx),
        "C17" => c17::run(ctx),
        "C07" => c07::run(ctx),
        "C08" => c08::run(ctx),
        "C09" => c09::run(ctx),
        "C10" => c10::run(ctx),
        "C11" => c11::run(ctx),
        "C12" => c12::run(ctx),
        "C13" => c13::run(ctx),
        "C18" => c18::run(ctx),
        "C19" => c19::run(ctx),
        "C20" => c20::run(ctx),
        _ => return None,
    })
}

/// Re-executes one recorded case without any explorer. Ok = the case passes now.
pub fn replay(id: &str, case: &serde_json::Value) -> Option<Result<(), String>> {
    Some(match id {
        "C01" => c01::replay(case),
        "C02" => c02::replay(case),
        "C03" => c03::replay(case),
        "C04" => c04::replay(case),
        "C05" => c05::replay(case),
        "C06" => c06::replay(case),
        "C14" => c14::replay(case),
        "C15" => c15::replay(case),
        "C16" => c16::replay(case),
        "C17" => c17::replay(case),
        "C07" => c07::replay(case),
        "C08" => c08::replay(case),
        "C09" => c09::replay(case),
        "C10" => c10::replay(case),
        "C11" => c11::replay(case),
        "C12" => c12::replay(case),
        "C13" => c13::replay(case),
        "C18" => c18::replay(case),
        "C19" => c19::replay(case),
        "C20" => c20::replay(case),
        _ => return None,
    })
}

/// child-process entry points (E-PROC)
pub fn child(name: &str, args: &[String]) -> Option<i32> {
    Some(match name {
        "c02" => c02::child(args),
        "c01deep" => c01::child_deep(),
        "c11sweep" => c11::child_sweep(args),
        "c11exit" => c11::child_exit(),
        "c11deep" => c11::child_deep(),
        "c16" => c16::child(args),
        "c16one" => c16::child_one(args),
        "c18" => c18::child(args),
        "c15reload" => c15::child_reload(args),
        "c05bg" => c05::child_bg(args),
        "c07bg" => c07::child_bg(),
        "c07huge" => c07::child_huge(args),
        "c08stdout" => c08::child_stdout(),
        "c19rel" => c19::child_rel(args),
        "c09zone" => c09::child_zone(),
        "c09sweep" => c09::child_sweep(),
        _ => return None,
    })
}
