//! C05 — the rolling appender never loses, duplicates, reorders or splits records.
//! E-HIST over histories x configurations (this file) and E-SCHED over thread schedules (c05_sched).

use super::rolling::*;
use crate::engine::{Ctx, Report, Tier};

pub fn worlds(tier: Tier) -> Vec<World> {
    let trigs = [Trig::Size(0), Trig::Size(25), Trig::Size(1100), Trig::OnStartup(1), Trig::TimeHourly, Trig::ScriptPost, Trig::ScriptPre];
    let rollers = [
        RollerK::Delete,
        RollerK::Fixed { base: 0, count: 0, ext: "" },
        RollerK::Fixed { base: 0, count: 1, ext: "" },
        RollerK::Fixed { base: 1, count: 2, ext: "" },
        RollerK::Fixed { base: 0, count: 3, ext: "" },
        RollerK::Fixed { base: 0, count: 2, ext: ".gz" },
        RollerK::Fixed { base: 1, count: 2, ext: ".zst" },
    ];
    let mut v = vec![];
    for t in &trigs {
        for r in &rollers {
            for append in [true, false] {
                // truncate mode: restarts drop the active file by design; keep a representative subset in the quick tier
                if !append && tier == Tier::Quick && !matches!(r, RollerK::Fixed { count: 2, .. } | RollerK::Delete) {
                    continue;
                }
                for pre in [None, Some(10u32)] {
                    if pre.is_some() && tier == Tier::Quick && !matches!(r, RollerK::Fixed { count: 2 | 3, .. }) {
                        continue;
                    }
                    v.push(World { append, trig: t.clone(), roller: r.clone(), pre, sizes: vec![0, 10, 1500], multibyte: false, restart: true });
                }
            }
        }
    }
    v
}

pub fn run(ctx: &Ctx) -> Report {
    let mut rep = Report::new("model_checking");
    rep.set(
        "rule",
        "E-HIST: per world (trigger kind incl. user-defined pre/post-processing triggers and the real time trigger under a driven clock, roller kind/base/count/compression, open mode, \
         pre-existing file) breadth-first exploration of the reference model over operations append(0|10|1500 bytes), restart, arm, tick; every transition out of every distinct model \
         state is replayed from scratch on the real RollingFileAppender; after every step the decompressed directory must equal the model and (append mode) archives oldest->newest ++ active \
         must be a record-aligned suffix of the acknowledged stream. E-SCHED part: see schedules_* keys",
    );
    let depth = ctx.tier.pick(5, 7);
    run_worlds(ctx, &mut rep, &worlds(ctx.tier), depth);
    rep.assume("truncate-mode restarts discard the active file by design (the property claims restarts in append mode); there the directory is compared with the model only");
    rep.assume("background_rotation feature: not explored by this build");
    rep
}

pub fn replay(case: &serde_json::Value) -> Result<(), String> {
    replay_world_case(case)
}
