//! C05 — the rolling appender never loses, duplicates, reorders or splits records.
//! E-HIST over histories x configurations (this file) and E-SCHED over thread schedules (c05_sched).

use super::rolling::*;
use crate::engine::{Ctx, Report, Tier};

pub fn worlds(tier: Tier) -> Vec<World> {
    let trigs = [Trig::Size(0), Trig::Size(25), Trig::Size(1100), Trig::OnStartup(1), Trig::TimeHourly, Trig::ScriptPost, Trig::ScriptPre];
    let rollers = [
        RollerK::Delete,
        RollerK::Fixed { base: 0, count: 0, ext: "" },
        RollerK::Fixed { base: 0, count: 1, ext: "" },
        RollerK::Fixed { base: 1, count: 2, ext: "" },
        RollerK::Fixed { base: 0, count: 3, ext: "" },
        RollerK::Fixed { base: 0, count: 2, ext: ".gz" },
        RollerK::Fixed { base: 1, count: 2, ext: ".zst" },
    ];
    let mut v = vec![];
    for t in &trigs {
        for r in &rollers {
            for append in [true, false] {
                // truncate mode: restarts drop the active file by design; keep a representative subset in the quick tier
                if !append && tier == Tier::Quick && !matches!(r, RollerK::Fixed { count: 2, .. } | RollerK::Delete) {
                    continue;
                }
                for pre in [None, Some(10u32)] {
                    if pre.is_some() && tier == Tier::Quick && !matches!(r, RollerK::Fixed { count: 2 | 3, .. }) {
                        continue;
                    }
                    v.push(World { append, trig: t.clone(), roller: r.clone(), pre, sizes: vec![0, 10, 1500], multibyte: false, restart: true });
                }
            }
        }
    }
    v
}

pub fn run(ctx: &Ctx) -> Report {
    let mut rep = Report::new("model_checking");
    rep.set(
        "rule",
        "E-HIST: per world (trigger kind incl. user-defined pre/post-processing triggers and the real time trigger under a driven clock, roller kind/base/count/compression, open mode, \
         pre-existing file) breadth-first exploration of the reference model over operations append(0|10|1500 bytes), restart, arm, tick; every transition out of every distinct model \
         state is replayed from scratch on the real RollingFileAppender; after every step the decompressed directory must equal the model and (append mode) archives oldest->newest ++ active \
         must be a record-aligned suffix of the acknowledged stream. E-SCHED part: see schedules_* keys",
    );
    let depth = ctx.tier.pick(5, 7);
    run_worlds(ctx, &mut rep, &worlds(ctx.tier), depth);
    let fw = |count: u32, ext: &'static str| RollerK::Fixed { base: 0, count, ext };
    let mk = |trig: Trig, roller: RollerK, pre: Option<u32>| World { append: true, trig, roller, pre, sizes: vec![], multibyte: false, restart: false };
    let b = ctx.tier.pick(2usize, 3usize);
    let mut hs = vec![
        // limits that force rotations inside the run; windows large enough that nothing is evicted
        (RSched { world: mk(Trig::Size(30), fw(6, ""), None), threads: 2, per_thread: 2, size: 24, chunks: 2, restart_after: None }, b),
        (RSched { world: mk(Trig::Size(0), fw(6, ""), Some(10)), threads: 2, per_thread: 2, size: 24, chunks: 1, restart_after: None }, b),
        (RSched { world: mk(Trig::Size(1100), fw(4, ".gz"), None), threads: 2, per_thread: 2, size: 1500, chunks: 2, restart_after: None }, 2),
        (RSched { world: mk(Trig::OnStartup(1), fw(3, ""), Some(10)), threads: 3, per_thread: 1, size: 24, chunks: 2, restart_after: None }, 2),
        (RSched { world: mk(Trig::Size(30), fw(6, ""), None), threads: 1, per_thread: 4, size: 24, chunks: 2, restart_after: Some(2) }, b),
    ];
    if ctx.tier == Tier::Thorough {
        hs.push((RSched { world: mk(Trig::Size(30), fw(8, ""), None), threads: 3, per_thread: 2, size: 24, chunks: 2, restart_after: None }, 2));
        hs.push((RSched { world: mk(Trig::Size(50), fw(8, ".zst"), None), threads: 2, per_thread: 3, size: 24, chunks: 2, restart_after: None }, 3));
    }
    run_scheds(ctx, &mut rep, &hs);
    // the same histories, and schedules over the roller's own rotation threads, in the build with the `background_rotation` feature
    if let Ok(bin) = std::env::var("VERIF_BG_BIN") {
        let o = crate::engine::proc::run_child(std::path::Path::new(&bin), "c05bg", &[ctx.tier.name().to_string()], &[], ctx.cap);
        let mut ok = false;
        for v in o.json_lines() {
            if v["kind"] == "stat" {
                ok = true;
                rep.add("states", v["states"].as_u64().unwrap_or(0));
                rep.add("transitions", v["transitions"].as_u64().unwrap_or(0));
                rep.add("traces_validated_against_impl", v["replays"].as_u64().unwrap_or(0));
                rep.add("schedules_executed", v["schedules_executed"].as_u64().unwrap_or(0));
                rep.add("schedules_reexecuted_for_determinism", v["schedules_reexecuted_for_determinism"].as_u64().unwrap_or(0));
                rep.add("schedule_reexecutions_diverged", v["schedule_reexecutions_diverged"].as_u64().unwrap_or(0));
                rep.set("background_rotation_build", v.clone());
            }
            if v["kind"] == "violation" {
                rep.violation(format!("background-rotation:{}", v["sig"].as_str().unwrap_or("")), v["detail"].as_str().unwrap_or(""), v["case"].clone());
            }
        }
        if !ok {
            eprintln!("MACHINERY FAILURE: background-rotation child failed: {}", String::from_utf8_lossy(&o.stderr));
            std::process::exit(2);
        }
    }
    rep.assume("truncate-mode restarts discard the active file by design (the property claims restarts in append mode); there the directory is compared with the model only");
    rep.assume("background_rotation feature: histories are explored with a quiescence wait after every operation; the interleavings of the library's own rotation threads are enumerated for 1-2 writers x 2-3 rolling records (shimmed spawn/Mutex/Condvar)");
    rep
}

pub fn replay(case: &serde_json::Value) -> Result<(), String> {
    if case["kind"] == "schedule" {
        return replay_sched_case(case);
    }
    replay_world_case(case)
}

/// `child c05bg` — run in the binary built with the `background_rotation` feature
pub fn child_bg(args: &[String]) -> i32 {
    let quick = args.first().map(|s| s.as_str()) != Some("thorough");
    let ctx = Ctx { id: "C05".into(), tier: Tier::Quick, seed: 0, start: std::time::Instant::now(), cap: std::time::Duration::from_secs(1200), verif_dir: "/nonexistent".into(), exe: std::env::current_exe().unwrap() };
    let mut rep = Report::new("model_checking");
    let ws: Vec<World> = worlds(Tier::Quick).into_iter().filter(|w| matches!(w.roller, RollerK::Fixed { .. })).collect();
    run_worlds(&ctx, &mut rep, &ws, if quick { 3 } else { 4 });
    // the roller's own rotation threads under the scheduler (spawn, mutex and condition variable are shimmed):
    // every record rolls, so a rotation is still in the background when the next one is requested
    let fw = |count: u32, ext: &'static str| RollerK::Fixed { base: 0, count, ext };
    let mk = |trig: Trig, roller: RollerK| World { append: true, trig, roller, pre: None, sizes: vec![], multibyte: false, restart: false };
    let hs = vec![
        (RSched { world: mk(Trig::Size(0), fw(6, "")), threads: 1, per_thread: 3, size: 24, chunks: 1, restart_after: None }, 2usize),
        (RSched { world: mk(Trig::Size(0), fw(6, "")), threads: 2, per_thread: 2, size: 24, chunks: 1, restart_after: None }, 1),
        (RSched { world: mk(Trig::Size(30), fw(6, ".gz")), threads: 2, per_thread: 2, size: 24, chunks: 2, restart_after: None }, 1),
        // an in-process restart (appender dropped, a new one built on the same path) while a rotation may still be in the background
        (RSched { world: mk(Trig::Size(0), fw(6, "")), threads: 1, per_thread: 4, size: 24, chunks: 1, restart_after: Some(2) }, 2),
        (RSched { world: mk(Trig::Size(0), fw(6, ".gz")), threads: 1, per_thread: 3, size: 24, chunks: 1, restart_after: Some(1) }, 2),
    ];
    run_scheds(&ctx, &mut rep, &hs);
    for v in rep.violations() {
        println!("{}", serde_json::json!({"kind": "violation", "sig": v.signature, "detail": v.detail, "case": v.replay}));
    }
    println!("{}", serde_json::json!({"kind": "stat", "feature_background_rotation": cfg!(feature = "background_rotation"), "worlds": ws.len(), "states": rep.get("states"), "transitions": rep.get("transitions"), "replays": rep.get("traces_validated_against_impl"), "schedules_executed": rep.get("schedules_executed"), "schedules_reexecuted_for_determinism": rep.get("schedules_reexecuted_for_determinism"), "schedule_reexecutions_diverged": rep.get("schedule_reexecutions_diverged"), "distinct_schedule_outcomes": rep.get("distinct_schedule_outcomes"), "schedule_explorations": rep.coverage.get("schedule_explorations")}));
    0
}
