//! C19 — $ENV{NAME} path expansion.  E-ENUM through the public builders only: the location of
//! the file a builder creates (and of the archive a roll creates) is the observation.

use crate::engine::{catch_panic, panic_site, sandbox::{snapshot, Entry, Sandbox}, Ctx, Report};
use log4rs::append::{
    file::FileAppender,
    rolling_file::{
        policy::compound::{roll::{fixed_window::FixedWindowRoller, Roll}, trigger::size::SizeTrigger, CompoundPolicy},
        RollingFileAppender,
    },
};
use rayon::prelude::*;
use serde_json::{json, Value};

pub const TOKENS: [&str; 15] = ["$ENV{", "$", "{", "}", "A", "A.B", "_x", "U", "é", "/", "-", "ENV", "9", ".", "日"];

/// (name, value) — set once per process before any worker starts; values are free of '$'
/// whole references and reference fragments: short sequences over these put a literal '$', an (empty or
/// fragment-valued) reference and reference-like text next to each other, so that a substitution can *form*
/// the text of another reference — which must stay literal text
pub const MACRO_TOKENS: [&str; 11] = ["$ENV{A}", "$ENV{_x}", "$ENV{E2}", "$ENV{Aé}", "ENV{A}", "$", "$ENV", "ENV", "{A}", "x", "/"];

pub const VARS: [(&str, &str); 13] = [
    ("E2", "ENV{A}"),
    // a set variable whose name starts with an illegal first character: the reference stays literal text
    (".A", "dotted"),
    ("日", "ri"),
    ("A日", "a-ri"),
    ("A", "v"),
    ("A.B", "p/q"),
    ("_x", ""),
    ("AA", "x}y"),
    ("é", "é2"),
    ("9", "nine"),
    ("A_x", "ax"),
    ("Aé", "{A}"),
    ("A9", "z{}w"),
];

fn var(name: &str) -> Option<&'static str> {
    VARS.iter().find(|(n, _)| *n == name).map(|(_, v)| *v)
}

/// reference semantics: left-to-right scanner
pub fn expand_ref(s: &str) -> String {
    let cs: Vec<char> = s.chars().collect();
    let pre: Vec<char> = "$ENV{".chars().collect();
    let mut out = String::new();
    let mut i = 0;
    while i < cs.len() {
        if cs[i..].starts_with(&pre) {
            let mut j = i + pre.len();
            let mut name = String::new();
            if j < cs.len() && (cs[j].is_alphanumeric() || cs[j] == '_') {
                name.push(cs[j]);
                j += 1;
                while j < cs.len() && (cs[j].is_alphanumeric() || cs[j] == '_' || cs[j] == '.') {
                    name.push(cs[j]);
                    j += 1;
                }
                if j < cs.len() && cs[j] == '}' {
                    if let Some(v) = var(&name) {
                        out.push_str(v);
                        i = j + 1;
                        continue;
                    }
                }
            }
        }
        out.push(cs[i]);
        i += 1;
    }
    out
}

fn usable_rel_path(p: &str) -> bool {
    !p.is_empty() && !p.ends_with('/') && !p.starts_with('/') && p.split('/').all(|c| !c.is_empty() && c != "." && c != "..") && p.split('/').all(|c| c.len() < 200)
}

/// the directories that creating the given relative files calls for: their ancestors, nothing else
fn ancestors_of(files: &[&str]) -> Vec<String> {
    let mut out = std::collections::BTreeSet::new();
    for f in files {
        let comps: Vec<&str> = f.split('/').collect();
        for k in 1..comps.len() {
            out.insert(comps[..k].join("/"));
        }
    }
    out.into_iter().collect()
}

fn files_of(sb: &Sandbox) -> Vec<String> {
    snapshot(&sb.dir).into_iter().filter(|(_, e)| matches!(e, Entry::File(_))).map(|(k, _)| k).collect()
}

#[derive(Clone, Copy, Debug, PartialEq)]
pub enum Via {
    File,
    Rolling,
    Roller,
}

/// None = conforms
pub fn check(path: &str, via: Via) -> Option<(String, String)> {
    let sb = Sandbox::new();
    let want_rel = expand_ref(path);
    let raw = format!("{}/{}", sb.dir.display(), path);
    match via {
        Via::File | Via::Rolling => {
            let r = catch_panic(|| match via {
                Via::File => FileAppender::builder().build(&raw).map(|_| ()).map_err(|e| e.to_string()),
                _ => RollingFileAppender::builder()
                    .build(&raw, Box::new(CompoundPolicy::new(Box::new(SizeTrigger::new(1 << 20)), Box::new(FixedWindowRoller::builder().build(&format!("{}/arch.{{}}", sb.dir.display()), 1).unwrap()))))
                    .map(|_| ())
                    .map_err(|e| e.to_string()),
            });
            let r = match r {
                Err(p) => return Some((format!("panic:{:?}:{}", via, panic_site(&p)), format!("path {:?}: {}", path, p))),
                Ok(r) => r,
            };
            if !usable_rel_path(&want_rel) {
                return None; // the expanded string is not a creatable file path; only totality is checked
            }
            let snap = snapshot(&sb.dir);
            let got: Vec<String> = snap.iter().filter(|(_, e)| matches!(e, Entry::File(_))).map(|(k, _)| k.clone()).collect();
            let dirs: Vec<String> = snap.iter().filter(|(_, e)| matches!(e, Entry::Dir)).map(|(k, _)| k.clone()).collect();
            match r {
                Err(e) => Some((format!("{:?}:build-failed", via), format!("path {:?} should create {:?} but build failed: {}", path, want_rel, e))),
                Ok(()) => {
                    if got != vec![want_rel.clone()] {
                        let kind = if got.iter().any(|g| g.contains("$ENV{")) && !want_rel.contains("$ENV{") {
                            "reference-not-substituted"
                        } else if got.len() == 1 {
                            "wrong-location"
                        } else {
                            "wrong-files"
                        };
                        Some((format!("{:?}:{}", via, kind), format!("path {:?}: created {:?}, expected exactly {:?}", path, got, want_rel)))
                    } else if dirs != ancestors_of(&[want_rel.as_str()]) {
                        Some((format!("{:?}:stray-directory", via), format!("path {:?}: directories {:?}, expected exactly the ancestors of {:?}", path, dirs, want_rel)))
                    } else {
                        None
                    }
                }
            }
        }
        Via::Roller => {
            // pattern "<path>.{}" — the active file lives elsewhere
            // (a path that already holds the index placeholder is the pattern itself)
            let pattern_rel = if path.contains("{}") { path.to_string() } else { format!("{}.{{}}", path) };
            let want0 = expand_ref(&pattern_rel.replace("{}", "0"));
            let want1 = expand_ref(&pattern_rel.replace("{}", "1"));
            let active = sb.path("active.log");
            let r = catch_panic(|| -> Result<(), String> {
                let roller = FixedWindowRoller::builder().build(&format!("{}/{}", sb.dir.display(), pattern_rel), 2).map_err(|e| e.to_string())?;
                // two rolls: the second one shifts the first archive, so both names go through the expansion
                std::fs::write(&active, b"first").unwrap();
                roller.roll(&active).map_err(|e| e.to_string())?;
                std::fs::write(&active, b"second").unwrap();
                roller.roll(&active).map_err(|e| e.to_string())
            });
            let r = match r {
                Err(p) => return Some((format!("panic:Roller:{}", panic_site(&p)), format!("pattern {:?}: {}", pattern_rel, p))),
                Ok(r) => r,
            };
            if !usable_rel_path(&want0) || !usable_rel_path(&want1) || want0 == "active.log" || want1 == "active.log" || want0 == want1 || want0.starts_with(&format!("{}/", want1)) || want1.starts_with(&format!("{}/", want0)) {
                return None;
            }
            let snap = snapshot(&sb.dir);
            let dirs: Vec<String> = snap.iter().filter(|(_, e)| matches!(e, Entry::Dir)).map(|(k, _)| k.clone()).collect();
            let got: std::collections::BTreeMap<String, Vec<u8>> = snap.into_iter().filter_map(|(k, e)| match e { Entry::File(b) => Some((k, b)), _ => None }).collect();
            let mut want = std::collections::BTreeMap::new();
            want.insert(want0.clone(), b"second".to_vec());
            want.insert(want1.clone(), b"first".to_vec());
            match r {
                Err(e) => Some(("Roller:roll-failed".into(), format!("pattern {:?} should archive to {:?} and {:?} but roll failed: {}", pattern_rel, want0, want1, e))),
                Ok(()) => {
                    if got != want {
                        Some(("Roller:wrong-location".into(), format!("pattern {:?}: files {:?}, expected exactly {:?}", pattern_rel, got.iter().map(|(k, v)| (k.clone(), String::from_utf8_lossy(v).into_owned())).collect::<Vec<_>>(), want.keys().collect::<Vec<_>>())))
                    } else if dirs != ancestors_of(&[want0.as_str(), want1.as_str()]) {
                        Some(("Roller:stray-directory".into(), format!("pattern {:?}: directories {:?}, expected exactly the ancestors of {:?} and {:?}", pattern_rel, dirs, want0, want1)))
                    } else {
                        None
                    }
                }
            }
        }
    }
}

fn nth_seq(mut i: u64, len: usize) -> String {
    let mut s = String::new();
    for _ in 0..len {
        s.push_str(TOKENS[(i % TOKENS.len() as u64) as usize]);
        i /= TOKENS.len() as u64;
    }
    s
}

pub fn set_env() {
    for (k, v) in VARS {
        std::env::set_var(k, v);
    }
    std::env::remove_var("U");
}

/// child: relative paths (the reference can sit at the very start of the string), cwd = a fresh sandbox.
/// args = part, nparts, maxlen
pub fn child_rel(args: &[String]) -> i32 {
    set_env();
    let part: u64 = args[0].parse().unwrap();
    let nparts: u64 = args[1].parse().unwrap();
    let maxlen: usize = args[2].parse().unwrap();
    let sb = Sandbox::new();
    std::env::set_current_dir(&sb.dir).unwrap();
    let mut n = 0u64;
    let mut found: std::collections::BTreeMap<String, (String, String, u64)> = Default::default();
    for len in 1..=maxlen {
        let total = (TOKENS.len() as u64).pow(len as u32);
        let mut i = part;
        while i < total {
            let p = nth_seq(i, len);
            i += nparts;
            // never leave the sandbox: absolute paths are out of this child's domain
            if p.starts_with('/') {
                continue;
            }
            let want = expand_ref(&p);
            n += 1;
            let r = catch_panic(|| FileAppender::builder().build(&p).map(|_| ()).map_err(|e| e.to_string()));
            let verdict = match r {
                Err(pn) => Some((format!("panic:RelativeFile:{}", panic_site(&pn)), format!("relative path {:?}: {}", p, pn))),
                Ok(res) => {
                    if !usable_rel_path(&want) {
                        None
                    } else {
                        let got = files_of(&sb);
                        match res {
                            Err(e) => Some(("RelativeFile:build-failed".to_string(), format!("relative path {:?} should create {:?} but build failed: {}", p, want, e))),
                            Ok(()) if got != vec![want.clone()] => Some(("RelativeFile:wrong-location".to_string(), format!("relative path {:?}: created {:?}, expected exactly {:?}", p, got, want))),
                            Ok(()) => None,
                        }
                    }
                }
            };
            if let Some((sig, detail)) = verdict {
                let e = found.entry(sig).or_insert((p.clone(), detail, 0));
                e.2 += 1;
            }
            // empty the sandbox again
            if let Ok(rd) = std::fs::read_dir(&sb.dir) {
                for e in rd.flatten() {
                    let path = e.path();
                    if path.is_dir() {
                        let _ = std::fs::remove_dir_all(&path);
                    } else {
                        let _ = std::fs::remove_file(&path);
                    }
                }
            }
        }
    }
    for (sig, (p, detail, count)) in found {
        println!("{}", json!({"kind": "violation", "sig": sig, "detail": detail, "case": {"path": p, "via": "RelativeFile"}, "count": count}));
    }
    println!("{}", json!({"kind": "stat", "paths": n}));
    let _ = std::env::set_current_dir("/");
    0
}

pub fn run(ctx: &Ctx) -> Report {
    set_env();
    let mut rep = Report::new("model_checking");
    rep.set(
        "rule",
        "E-ENUM: every token sequence up to the length bound over {$ENV{, $, {, }, A, A.B, _x, U(unset), é, /, -, ENV, 9, .} as a path below a fresh sandbox, \
         through FileAppender::builder().build (all), RollingFileAppender and FixedWindowRoller::roll (shorter sub-lattice); plus every sequence of up to 4 (thorough 5) whole references / reference fragments \
         {$ENV{A}, $ENV{_x}(empty), $ENV{E2}(value ENV{A}), $ENV{Aé}(value {A}), ENV{A}, $, $ENV, ENV, {A}, x, /}; the file must appear exactly at \
         the reference scanner's expansion and nowhere else; no panic on any string. Non-trivial = string containing '$ENV{' (distinct strings counted)",
    );
    let maxlen = ctx.tier.pick(5usize, 6usize);
    let sublen = ctx.tier.pick(4usize, 5usize);
    let mut total = 0u64;
    let mut capped = false;
    for len in 0..=maxlen {
        let n = (TOKENS.len() as u64).pow(len as u32);
        let res: Vec<(u64, u64, Vec<(String, Via, (String, String))>, u64)> = (0..n)
            .into_par_iter()
            .fold(
                || (0u64, 0u64, Vec::new(), 0u64),
                |mut acc, i| {
                    if ctx.over_cap() {
                        return acc;
                    }
                    acc.3 += 1;
                    let p = nth_seq(i, len);
                    let mut vias = vec![Via::File];
                    if len <= sublen {
                        vias.push(Via::Rolling);
                        if !p.contains("{}") && !p.ends_with('{') {
                            vias.push(Via::Roller);
                        }
                    }
                    for via in vias {
                        acc.0 += 1;
                        if let Some(m) = check(&p, via) {
                            if acc.2.len() < 200 {
                                acc.2.push((p.clone(), via, m));
                            }
                        }
                    }
                    if p.contains("$ENV{") {
                        acc.1 += 1;
                    }
                    acc
                },
            )
            .collect();
        let mut done = 0;
        for (n_eval, nt, bad, strings) in res {
            done += strings;
            rep.add("evaluations", n_eval);
            rep.add("distinct_nontrivial", nt);
            for (p, via, (s, d)) in bad {
                rep.violation(s, d, json!({"path": p, "via": format!("{:?}", via)}));
            }
        }
        total += n;
        if done < n {
            capped = true;
        }
    }
    // roller patterns whose index placeholder stands *before* a reference (a value with '/' then puts every index
    // into a directory of its own), in a directory component, or twice
    for pat in ["g{}$ENV{A.B}", "d/{}$ENV{A.B}.log", "$ENV{A}/{}/x", "{}$ENV{A.B}", "a{}/$ENV{A}{}", "$ENV{A.B}{}/y$ENV{U}", "{}/$ENV{A.B}/z.{}"] {
        rep.add("evaluations", 1);
        if let Some((sg, d)) = check(pat, Via::Roller) {
            rep.violation(format!("index-before-reference:{}", sg), d, json!({"path": pat, "via": "Roller"}));
        }
    }
    // macro-token sequences: text of a reference formed by an earlier substitution
    let mlen = ctx.tier.pick(4usize, 5usize);
    let mut macro_paths: Vec<String> = vec![String::new()];
    let mut fr: Vec<String> = vec![String::new()];
    for _ in 0..mlen {
        let mut nx = vec![];
        for w in &fr {
            for t in MACRO_TOKENS {
                nx.push(format!("{}{}", w, t));
            }
        }
        macro_paths.extend(nx.iter().cloned());
        fr = nx;
    }
    macro_paths.sort();
    macro_paths.dedup();
    let bad_m: Vec<(String, Via, (String, String))> = macro_paths
        .par_iter()
        .flat_map_iter(|p| {
            let mut v = vec![];
            if !ctx.over_cap() {
                for via in [Via::File, Via::Roller] {
                    if via == Via::Roller && (p.contains("{}") || p.ends_with('{')) {
                        continue;
                    }
                    if let Some(m) = check(p, via) {
                        v.push((p.clone(), via, m));
                    }
                }
            }
            v
        })
        .collect();
    rep.add("evaluations", macro_paths.len() as u64 * 2);
    rep.add("distinct_nontrivial", macro_paths.iter().filter(|p| p.contains("$ENV{")).count() as u64);
    rep.set("macro_token_sequences", macro_paths.len() as u64);
    for (p, via, (sg, d)) in bad_m.into_iter().take(200) {
        rep.violation(format!("formed-reference:{}", sg), d, json!({"path": p, "via": format!("{:?}", via)}));
    }
    // relative paths in child processes (cwd is process-global)
    let rel_len = ctx.tier.pick(4usize, 5usize);
    let outs: Vec<_> = (0..16u64)
        .into_par_iter()
        .map(|part| crate::engine::proc::run_child(&ctx.exe, "c19rel", &[part.to_string(), "16".into(), rel_len.to_string()], &[], ctx.cap))
        .collect();
    for o in outs {
        let mut ok = false;
        for v in o.json_lines() {
            if v["kind"] == "stat" {
                ok = true;
                rep.add("evaluations", v["paths"].as_u64().unwrap_or(0));
                rep.add("relative_paths", v["paths"].as_u64().unwrap_or(0));
            }
            if v["kind"] == "violation" {
                rep.violation(v["sig"].as_str().unwrap_or("?"), v["detail"].as_str().unwrap_or(""), v["case"].clone());
            }
        }
        if !ok {
            if o.timed_out {
                capped = true;
            } else {
                eprintln!("MACHINERY FAILURE: relative-path child failed: {}", String::from_utf8_lossy(&o.stderr));
                std::process::exit(2);
            }
        }
    }
    rep.set("token_sequences", total);
    rep.set("max_tokens", maxlen as u64);
    rep.set("exhaustive", !capped);
    rep.set("variables", json!(VARS.iter().map(|(k, v)| format!("{}={:?}", k, v)).collect::<Vec<_>>()));
    rep.sample(json!({"path": nth_seq(ctx.seed.wrapping_mul(104729) % 15u64.pow(5) + 15u64.pow(4), 5), "via": "File"}));
    rep.sample(json!({"path": "$ENV{A}/$ENV{U}-$ENV{A.B}", "expands_to": expand_ref("$ENV{A}/$ENV{U}-$ENV{A.B}")}));
    rep.assume("variable values contain no '$' (the property's stated domain); strings whose expansion is not a creatable relative file path are only checked for totality");
    rep
}

pub fn replay(case: &Value) -> Result<(), String> {
    set_env();
    let p = case["path"].as_str().ok_or("bad case")?;
    if case["via"].as_str() == Some("RelativeFile") {
        let exe = std::env::current_exe().map_err(|e| e.to_string())?;
        let len = p.chars().count().max(1).min(5);
        for part in 0..16u64 {
            let o = crate::engine::proc::run_child(&exe, "c19rel", &[part.to_string(), "16".into(), len.to_string()], &[], std::time::Duration::from_secs(300));
            for v in o.json_lines() {
                if v["kind"] == "violation" {
                    return Err(format!("{}: {}", v["sig"].as_str().unwrap_or(""), v["detail"].as_str().unwrap_or("")));
                }
            }
        }
        return Ok(());
    }
    let via = match case["via"].as_str() {
        Some("Rolling") => Via::Rolling,
        Some("Roller") => Via::Roller,
        _ => Via::File,
    };
    match check(p, via) {
        None => Ok(()),
        Some((s, d)) => Err(format!("{}: {}", s, d)),
    }
}
