//! C02 — enabled(), delivery and the log facade's global max level agree.
//! (a) in-process: the C01 sweep, judged on enabled()/max_log_level();
//! (b) E-PROC: one child per (entry point, initial configuration); each child walks every
//!     sequence of Handle::set_config of the depth bound and probes through the log! macros.

use super::{c01, routing::*};
use crate::engine::{
    capture::{self, CountAppender},
    catch_panic, panic_site,
    proc::{emit, run_child},
    sandbox::Sandbox,
    Ctx, Report,
};
use log::LevelFilter;
use rayon::prelude::*;
use serde_json::{json, Value};
use std::{
    collections::BTreeMap,
    sync::{
        atomic::{AtomicUsize, Ordering},
        Arc,
    },
    time::Duration,
};

fn ls(name: &str, level: LevelFilter, additive: bool, apps: &[&str]) -> LoggerSpec {
    LoggerSpec { name: name.into(), level, additive, appenders: apps.iter().map(|s| s.to_string()).collect() }
}

/// six configurations whose most verbose level sits in different places
pub fn confs() -> Vec<ConfSpec> {
    let names = vec!["x".to_string(), "y".to_string()];
    let mk = |root_level, root_apps: &[&str], loggers: Vec<LoggerSpec>| ConfSpec {
        appender_names: names.clone(),
        root_level,
        root_appenders: root_apps.iter().map(|s| s.to_string()).collect(),
        loggers,
    };
    use LevelFilter::*;
    vec![
        mk(Off, &["x"], vec![]),                                                                   // everything off
        mk(Trace, &["x"], vec![ls("a", Warn, true, &["y"])]),                                      // max at the root
        mk(Error, &["x"], vec![ls("a", Info, true, &["y"]), ls("a::b", Trace, true, &[])]),        // max at a grandchild-level node
        mk(Warn, &[], vec![ls("a::b::c", Debug, true, &["x"]), ls("a", Off, true, &["y"])]),       // below a silent parent, implied intermediates
        mk(Info, &["x", "y"], vec![]),                                                             // root only
        mk(Off, &["x"], vec![ls("a", Error, false, &["y"]), ls("b", Trace, true, &["x"])]),        // max at a sibling
    ]
}

pub const ENTRIES: [&str; 4] = ["init_config", "init_config_with_err_handler", "init_raw_config", "init_file"];

fn yaml_of(conf: &ConfSpec, appender_yaml: &dyn Fn(&str) -> String) -> String {
    let mut s = String::new();
    s.push_str("appenders:\n");
    for a in &conf.appender_names {
        s.push_str(&format!("  {}:\n{}", a, appender_yaml(a)));
    }
    s.push_str(&format!("root:\n  level: {}\n  appenders: [{}]\n", conf.root_level.to_string().to_lowercase(), conf.root_appenders.join(", ")));
    if !conf.loggers.is_empty() {
        s.push_str("loggers:\n");
        for l in &conf.loggers {
            s.push_str(&format!(
                "  \"{}\":\n    level: {}\n    additive: {}\n    appenders: [{}]\n",
                l.name,
                l.level.to_string().to_lowercase(),
                l.additive,
                l.appenders.join(", ")
            ));
        }
    }
    s
}

/// child: args = entry, initial configuration index, depth
pub fn child(args: &[String]) -> i32 {
    let entry = args[0].as_str();
    let init: usize = args[1].parse().unwrap();
    let depth: usize = args[2].parse().unwrap();
    let ks = confs();
    let targets = c01::targets();
    let sb = Sandbox::new();
    let cx = Arc::new(AtomicUsize::new(0));
    let cy = Arc::new(AtomicUsize::new(0));
    let flip = std::cell::Cell::new(false);
    let build = |k: &ConfSpec| {
        let (cx, cy) = (cx.clone(), cy.clone());
        // every other configuration is built with another root level, which is then corrected through root_mut().set_level
        flip.set(!flip.get());
        if flip.get() {
            let mut k2 = k.clone();
            k2.root_level = if k.root_level == LevelFilter::Trace { LevelFilter::Off } else { LevelFilter::Trace };
            let mut c = build_config(&k2, &mut |n| Box::new(CountAppender(if n == "x" { cx.clone() } else { cy.clone() }))).expect("valid");
            c.root_mut().set_level(k.root_level);
            c
        } else {
            build_config(k, &mut |n| Box::new(CountAppender(if n == "x" { cx.clone() } else { cy.clone() }))).expect("valid")
        }
    };
    // how deliveries are observed depends on the entry point
    enum Obs {
        Counters,
        Files,
        Registry,
    }
    let mut handle: Option<log4rs::Handle> = None;
    let obs;
    let r = catch_panic(|| match entry {
        "init_config" => {
            handle = Some(log4rs::init_config(build(&ks[init])).expect("init"));
            Obs::Counters
        }
        "init_config_with_err_handler" => {
            handle = Some(log4rs::config::init_config_with_err_handler(build(&ks[init]), Box::new(|_| {})).expect("init"));
            Obs::Counters
        }
        "init_raw_config" => {
            let y = yaml_of(&ks[init], &|a| format!("    kind: file\n    path: {}\n    encoder:\n      pattern: \"{{m}}{{n}}\"\n", sb.p(&format!("{}.log", a))));
            let raw: log4rs::config::RawConfig = serde_yaml::from_str(&y).expect("yaml");
            log4rs::init_raw_config(raw).expect("init");
            Obs::Files
        }
        "init_file" => {
            let y = yaml_of(&ks[init], &|a| format!("    kind: capture\n    tag: {}\n", a));
            let p = sb.path("log4rs.yaml");
            std::fs::write(&p, y).unwrap();
            log4rs::init_file(&p, capture::deserializers_with_capture()).expect("init");
            Obs::Registry
        }
        _ => panic!("unknown entry"),
    });
    match r {
        Ok(o) => obs = o,
        Err(p) => {
            emit(json!({"kind":"violation","sig":format!("panic-init:{}", panic_site(&p)),"detail":p,"case":{"entry":entry,"init":init}}));
            return 0;
        }
    }
    let mut steps = 0u64;
    let mut probes = 0u64;
    let mut reported = std::collections::BTreeSet::new();
    let mut verify = |cur: &ConfSpec, history: &[usize]| {
        steps += 1;
        let case = |extra: Value| json!({"entry": entry, "init": init, "history": history, "current": conf_json(cur), "probe": extra});
        let want = max_level(cur);
        let got = log::max_level();
        if got != want && reported.insert("max".to_string()) {
            emit(json!({"kind":"violation","sig": if frank(got) < frank(want) {"facade-max-level-too-low"} else {"facade-max-level-too-high"},
                "detail": format!("log::max_level() = {} but the configuration's most verbose level is {}", got, want), "case": case(json!(null))}));
        }
        for t in &targets {
            for level in LEVELS {
                probes += 1;
                cx.store(0, Ordering::Relaxed);
                cy.store(0, Ordering::Relaxed);
                let _ = capture::take_deliveries();
                let before: BTreeMap<&str, u64> = ["x", "y"].iter().map(|a| (*a, std::fs::metadata(sb.path(&format!("{}.log", a))).map(|m| m.len()).unwrap_or(0))).collect();
                log::log!(target: t.as_str(), level, "m");
                let enabled = log::log_enabled!(target: t.as_str(), level);
                let (gx, gy) = match obs {
                    Obs::Counters => (cx.load(Ordering::Relaxed), cy.load(Ordering::Relaxed)),
                    Obs::Registry => {
                        let d = capture::take_deliveries();
                        (d.iter().filter(|e| e.0 == "x").count(), d.iter().filter(|e| e.0 == "y").count())
                    }
                    Obs::Files => {
                        let f = |a: &str| ((std::fs::metadata(sb.path(&format!("{}.log", a))).map(|m| m.len()).unwrap_or(0) - before[a]) / 2) as usize;
                        (f("x"), f("y"))
                    }
                };
                let allowed = routes(cur, t, level);
                let ok = allowed.iter().any(|r| r.deliveries.get("x").copied().unwrap_or(0) == gx && r.deliveries.get("y").copied().unwrap_or(0) == gy);
                if !ok {
                    let sig = if gx + gy == 0 { "macro-record-lost" } else { "macro-record-misrouted" };
                    if reported.insert(sig.to_string()) {
                        emit(json!({"kind":"violation","sig":sig,
                            "detail": format!("log!(target: {:?}, {}) delivered x={} y={}, routing prescribes {:?} (log::max_level()={})", t, level, gx, gy,
                                allowed.iter().map(|r| &r.deliveries).collect::<Vec<_>>(), log::max_level()),
                            "case": case(json!({"target": t, "level": level.to_string()}))}));
                    }
                }
                if !allowed.iter().any(|r| r.admit == enabled) && reported.insert("enabled".to_string()) {
                    emit(json!({"kind":"violation","sig":"log_enabled-vs-threshold",
                        "detail": format!("log_enabled!(target: {:?}, {}) = {} but the effective threshold says {}", t, level, enabled, allowed[0].admit),
                        "case": case(json!({"target": t, "level": level.to_string()}))}));
                }
            }
        }
    };
    verify(&ks[init], &[]);
    if let Some(h) = handle {
        // every sequence of exactly `depth` reconfigurations, back to back: every sequence of length
        // <= depth occurs as a contiguous window, and the oracle runs after every single step
        let n = ks.len();
        let total = n.pow(depth as u32);
        let mut history: Vec<usize> = vec![];
        for code in 0..total {
            let mut c = code;
            for _ in 0..depth {
                let j = c % n;
                c /= n;
                let r = catch_panic(|| h.set_config(build(&ks[j])));
                history.push(j);
                if history.len() > 2 * depth {
                    history.remove(0);
                }
                if let Err(p) = r {
                    emit(json!({"kind":"violation","sig":format!("panic-set_config:{}", panic_site(&p)),"detail":p,"case":{"entry":entry,"init":init,"history":history}}));
                    return 0;
                }
                verify(&ks[j], &history);
            }
        }
    }
    emit(json!({"kind":"stat","steps":steps,"probes":probes}));
    0
}

pub fn run(ctx: &Ctx) -> Report {
    let mut rep = Report::new("model_checking");
    rep.set(
        "rule",
        "(a) E-ENUM: the C01 configuration x probe sweep judged on Log::enabled() and Logger::max_log_level(); \
         (b) E-PROC: one child per entry point x initial configuration; with a Handle the child applies every sequence of `depth` \
         set_config calls over 6 configurations (levels go up and down) and after every step compares log::max_level() with the model \
         and logs every (target, level) probe through log! / log_enabled!. Non-trivial = configuration whose most verbose level is not the root's, \
         or a reconfiguration step that lowers the maximum",
    );
    c01::sweep(ctx, &mut rep, "C02");
    let depth = ctx.tier.pick(3usize, 4usize);
    let jobs: Vec<(&str, usize)> = ENTRIES.iter().flat_map(|e| (0..confs().len()).map(move |i| (*e, i))).collect();
    let outs: Vec<_> = jobs
        .par_iter()
        .map(|(e, i)| {
            let o = run_child(&ctx.exe, "c02", &[e.to_string(), i.to_string(), depth.to_string()], &[], Duration::from_secs(300));
            (*e, *i, o)
        })
        .collect();
    let mut steps = 0;
    let mut machinery = vec![];
    for (e, i, o) in outs {
        let mut stat = false;
        for v in o.json_lines() {
            match v["kind"].as_str() {
                Some("stat") => {
                    stat = true;
                    steps += v["steps"].as_u64().unwrap_or(0);
                    rep.add("evaluations", v["probes"].as_u64().unwrap_or(0));
                }
                Some("violation") => {
                    stat = true;
                    rep.violation(v["sig"].as_str().unwrap_or("?"), v["detail"].as_str().unwrap_or(""), json!({"child": v["case"], "depth": depth}));
                }
                _ => {}
            }
        }
        if !stat {
            machinery.push(format!("child {} {}: status {:?} timed_out {} stderr {}", e, i, o.status, o.timed_out, String::from_utf8_lossy(&o.stderr)));
        }
    }
    if !machinery.is_empty() {
        eprintln!("MACHINERY FAILURE: {}", machinery.join("; "));
        std::process::exit(2);
    }
    rep.set("children", jobs.len() as u64);
    rep.set("reconfiguration_steps_verified", steps);
    rep.set("reconfiguration_depth", depth as u64);
    rep.add("distinct_nontrivial", steps);
    rep.sample(json!({"entry": "init_config", "initial": conf_json(&confs()[3]), "then": "every sequence of set_config over the 6 configurations, probes after every step"}));
    rep.assume("init_raw_config and init_file (without refresh_rate) return no Handle: only the initial installation is checked for them; reloader-driven reconfiguration is C15");
    rep
}

pub fn replay(case: &Value) -> Result<(), String> {
    if case.get("child").is_some() {
        let c = &case["child"];
        let exe = std::env::current_exe().map_err(|e| e.to_string())?;
        let depth = case["depth"].as_u64().unwrap_or(3);
        let o = run_child(&exe, "c02", &[c["entry"].as_str().unwrap_or("init_config").to_string(), c["init"].as_u64().unwrap_or(0).to_string(), depth.to_string()], &[], Duration::from_secs(300));
        for v in o.json_lines() {
            if v["kind"] == "violation" {
                return Err(format!("{}: {}", v["sig"].as_str().unwrap_or(""), v["detail"].as_str().unwrap_or("")));
            }
        }
        Ok(())
    } else {
        c01::replay(case)
    }
}
