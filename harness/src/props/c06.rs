//! C06 — size trigger rolls exactly when the limit is exceeded; size accounting is exact.
//! E-HIST over the real RollingFileAppender + CompoundPolicy(SizeTrigger, FixedWindowRoller) wrapped in
//! an observing Policy that compares len_estimate() with the true file size at every consultation.

use super::rolling::*;
use crate::engine::{Ctx, Report, Tier};

pub fn worlds(tier: Tier) -> Vec<World> {
    let mut v = vec![];
    let limits: &[u64] = &[0, 1, 10, 1024, 1030];
    for &n in limits {
        let mut sizes: Vec<u32> = vec![0, 1, n.saturating_sub(1) as u32, n as u32, n as u32 + 1];
        if tier == Tier::Thorough || n >= 10 {
            sizes.push(1500);
        }
        sizes.sort();
        sizes.dedup();
        let mut pres: Vec<Option<u32>> = vec![None, Some(0), Some(n.saturating_sub(1) as u32), Some(n as u32), Some(n as u32 + 1)];
        pres.dedup();
        for pre in pres {
            for append in [true, false] {
                if tier == Tier::Quick && !append && matches!(pre, Some(p) if p as u64 + 1 == n) {
                    continue;
                }
                v.push(World {
                    append,
                    trig: Trig::Size(n),
                    roller: RollerK::Fixed { base: 0, count: 2, ext: "" },
                    pre,
                    sizes: sizes.clone(),
                    multibyte: n >= 10,
                    restart: true,
                });
            }
        }
    }
    v
}

pub fn run(ctx: &Ctx) -> Report {
    let mut rep = Report::new("model_checking");
    rep.set(
        "rule",
        "E-HIST: breadth-first exploration of the reference model of appender+SizeTrigger(N)+FixedWindowRoller for every world (limit N, pre-existing size, open mode), \
         operations append(size in {0,1,N-1,N,N+1,1500}) and restart; every transition out of every distinct model state is replayed from scratch on the real appender; after \
         every step: len_estimate() == fs::metadata().len() at the consultation, rolled <=> size > N, directory == model. States are distinct model layouts (sizes per file)",
    );
    let depth = ctx.tier.pick(5, 7);
    run_worlds(ctx, &mut rep, &worlds(ctx.tier), depth);
    // concurrent writers: the size shown to the policy and its decision must be exact under every schedule
    let fw = RollerK::Fixed { base: 0, count: 6, ext: "" };
    let mk = |n: u64, pre: Option<u32>| World { append: true, trig: Trig::Size(n), roller: fw.clone(), pre, sizes: vec![], multibyte: false, restart: false };
    let b = ctx.tier.pick(2usize, 3usize);
    let hs = vec![
        (RSched { world: mk(30, None), threads: 2, per_thread: 2, size: 24, chunks: 2, restart_after: None }, b),
        (RSched { world: mk(24, Some(10)), threads: 2, per_thread: 2, size: 24, chunks: 1, restart_after: None }, b),
        (RSched { world: mk(1100, None), threads: 2, per_thread: 2, size: 1500, chunks: 2, restart_after: None }, 2),
    ];
    run_scheds(ctx, &mut rep, &hs);
    short_writes(&mut rep);
    failed_roll_accounting(&mut rep);
    failed_encode_accounting(&mut rep);
    rep.assume("nobody else writes to the log file; window of 2 archives (the roller itself is C07)");
    rep
}

/// writes the message; a message of the form "FAIL<k>:..." is cut after k bytes and the encoder returns an error
#[derive(Debug)]
struct FailingEncoder;

impl log4rs::encode::Encode for FailingEncoder {
    fn encode(&self, w: &mut dyn log4rs::encode::Write, record: &log::Record) -> anyhow::Result<()> {
        let msg = format!("{}", record.args());
        if let Some(rest) = msg.strip_prefix("FAIL") {
            let k: usize = rest.split(':').next().and_then(|n| n.parse().ok()).unwrap_or(0);
            w.write_all(&msg.as_bytes()[..k.min(msg.len())])?;
            anyhow::bail!("encoder gave up after {} bytes", k);
        }
        w.write_all(msg.as_bytes())?;
        Ok(())
    }
}

/// An encoder that fails after it has written part of a record: those bytes are in the file (at the latest when the
/// next record is flushed).  Every later consultation must still be shown the true size.
fn failed_encode_accounting(rep: &mut Report) {
    use std::sync::{atomic::AtomicBool, Arc, Mutex};
    let mut runs = 0u64;
    for append in [true, false] {
        for limit in [60u64, 5000] {
            for partial in [0usize, 5, 30, 1500] {
                for fail_at in [0usize, 1, 2] {
                    let w = World { append, trig: Trig::Size(limit), roller: RollerK::Fixed { base: 0, count: 2, ext: "" }, pre: None, sizes: vec![], multibyte: false, restart: false };
                    let sb = crate::engine::sandbox::Sandbox::new();
                    let consults = Arc::new(Mutex::new(vec![]));
                    let armed = Arc::new(AtomicBool::new(false));
                    let app = match crate::engine::catch_panic(|| w.build_appender_with(&sb, &consults, &armed, Box::new(FailingEncoder))) {
                        Ok(Ok(a)) => a,
                        Ok(Err(e)) => {
                            rep.violation("failed-encode:build-failed", e, serde_json::json!({"kind": "failed-encode"}));
                            continue;
                        }
                        Err(p) => {
                            rep.violation(format!("failed-encode:panic-build:{}", crate::engine::panic_site(&p)), p, serde_json::json!({"kind": "failed-encode"}));
                            continue;
                        }
                    };
                    runs += 1;
                    let mut history = vec![];
                    for step in 0..6usize {
                        let text = if step == fail_at { format!("FAIL{}:{}", partial, "x".repeat(1600)) } else { format!("<r{}:abcdefghijklmnopqrst>", step) };
                        let r = crate::engine::catch_panic(|| {
                            use log4rs::append::Append;
                            app.append(&log::Record::builder().level(log::Level::Info).args(format_args!("{}", text)).build())
                        });
                        history.push(format!("append#{}={}", step, match &r { Ok(Ok(())) => "Ok".to_string(), Ok(Err(e)) => format!("Err({})", e), Err(p) => format!("panic({})", p) }));
                        if let Err(p) = r {
                            rep.violation(format!("failed-encode:panic:{}", crate::engine::panic_site(&p)), format!("{}: {:?}", w.describe(), history), serde_json::json!({"kind": "failed-encode"}));
                            break;
                        }
                    }
                    let cs = consults.lock().unwrap().clone();
                    rep.add("traces_validated_against_impl", 1);
                    for c in cs {
                        if c.true_len.is_some() && c.true_len != Some(c.seen) {
                            rep.violation(
                                "failed-encode:size-accounting:len_estimate-differs-from-file-size",
                                format!("[{}] encoder fails at record {} after {} bytes, {:?}: the policy was shown len_estimate()={} while the active file holds {:?} bytes", w.describe(), fail_at, partial, history, c.seen, c.true_len),
                                serde_json::json!({"kind": "failed-encode"}),
                            );
                            break;
                        }
                    }
                }
            }
        }
    }
    rep.add("failed_encode_histories", runs);
}

/// A roll that fails (a non-empty directory sits at the archive name) leaves the oversized file in place; the
/// appender reopens it for the next record.  The size shown to the policy must still be the true size.
fn failed_roll_accounting(rep: &mut Report) {
    for append in [true, false] {
        for count in [1u32, 2] {
            let w = World { append, trig: Trig::Size(25), roller: RollerK::Fixed { base: 0, count, ext: "" }, pre: None, sizes: vec![], multibyte: false, restart: false };
            let st = w.model_init();
            let mut real = match w.real_init(&st) {
                Ok(r) => r,
                Err((s, d)) => {
                    rep.violation(s, d, serde_json::json!({"kind": "failed-roll"}));
                    continue;
                }
            };
            let obstacle = real.sb.path(&w.archive_rel(count - 1)).join("x");
            let mut history = vec![];
            for step in 0..10u32 {
                // the obstacle is in place for records 0..4 (rolls fail), removed afterwards
                if step == 0 {
                    std::fs::create_dir_all(&obstacle).unwrap();
                }
                if step == 5 {
                    let _ = std::fs::remove_dir_all(real.sb.path(&w.archive_rel(count - 1)));
                }
                real.consults.lock().unwrap().clear();
                let text = String::from_utf8(payload(step, 10, false)).unwrap();
                let app = real.appender.as_ref().unwrap();
                let r = crate::engine::catch_panic(|| {
                    use log4rs::append::Append;
                    app.append(&log::Record::builder().level(log::Level::Info).args(format_args!("{}", text)).build())
                });
                history.push(format!("append#{}={}", step, match &r { Ok(Ok(())) => "Ok".to_string(), Ok(Err(e)) => format!("Err({})", e), Err(p) => format!("panic({})", p) }));
                if let Err(p) = r {
                    rep.violation(format!("failed-roll:panic:{}", crate::engine::panic_site(&p)), format!("{}: {:?}", w.describe(), history), serde_json::json!({"kind": "failed-roll"}));
                    break;
                }
                let cs = real.consults.lock().unwrap().clone();
                rep.add("traces_validated_against_impl", 1);
                for c in cs {
                    if c.true_len.is_some() && c.true_len != Some(c.seen) {
                        rep.violation(
                            "failed-roll:size-accounting:len_estimate-differs-from-file-size",
                            format!("[{}] {:?}: the policy was shown len_estimate()={} while the active file holds {:?} bytes", w.describe(), history, c.seen, c.true_len),
                            serde_json::json!({"kind": "failed-roll", "append": append, "count": count}),
                        );
                    }
                }
            }
            rep.add("failed_roll_histories", 1);
        }
    }
}

/// Environment deviation: each write(2) of a short history accepts only part of its buffer once.
/// The size accounting must follow the bytes the file really accepted.
fn short_writes(rep: &mut Report) {
    use crate::engine::fsfault::{self, Plan};
    let w = World { append: true, trig: Trig::Size(4000), roller: RollerK::Fixed { base: 0, count: 2, ext: "" }, pre: Some(10), sizes: vec![], multibyte: false, restart: false };
    let path = vec![Op::Append(1500), Op::Append(10), Op::Append(1500), Op::Append(1500)];
    let run = |short: Vec<(usize, usize)>| -> (Result<(), (String, String)>, usize) {
        let mut st = w.model_init();
        let r = (|| {
            // the session starts before the appender opens its file, so that the descriptor is tracked
            fsfault::begin(&crate::engine::sandbox::scratch_root(), Plan { fail: vec![], snapshots: false, kinds: vec!["write"], short });
            let mut real = w.real_init(&st)?;
            fsfault::arm();
            for op in &path {
                let label = st.nops;
                let next = w.model_step(&st, op);
                w.real_step(&mut real, op, label, &next)?;
                st = next;
                w.compare(&real, &st)?;
            }
            Ok(())
        })();
        crate::engine::hooks::set_now(None);
        let n = fsfault::end().map_or(0, |(c, _)| c.len());
        (r, n)
    };
    let (r0, n) = run(vec![]);
    if let Err((s, d)) = r0 {
        rep.violation(s, d, serde_json::json!({"kind": "short-write", "k": null}));
        return;
    }
    let mut runs = 0u64;
    for k in 0..n {
        for max in [1usize, 700] {
            runs += 1;
            if let (Err((s, d)), _) = run(vec![(k, max)]) {
                rep.violation(format!("short-write:{}", s), format!("write #{} of the history {:?} accepts only {} bytes: {}", k, path, max, d), serde_json::json!({"kind": "short-write", "k": k, "max": max}));
            }
        }
    }
    rep.add("short_write_runs", runs);
    rep.add("traces_validated_against_impl", runs);
}

pub fn replay(case: &serde_json::Value) -> Result<(), String> {
    if case["kind"] == "schedule" {
        return replay_sched_case(case);
    }
    if case["kind"] == "failed-roll" {
        let mut rep = Report::new("model_checking");
        failed_roll_accounting(&mut rep);
        return match rep.violations().first() {
            Some(v) => Err(format!("{}: {}", v.signature, v.detail)),
            None => Ok(()),
        };
    }
    if case["kind"] == "failed-encode" {
        let mut rep = Report::new("model_checking");
        failed_encode_accounting(&mut rep);
        return match rep.violations().first() {
            Some(v) => Err(format!("{}: {}", v.signature, v.detail)),
            None => Ok(()),
        };
    }
    if case["kind"] == "short-write" {
        let mut rep = Report::new("model_checking");
        short_writes(&mut rep);
        return match rep.violations().first() {
            Some(v) => Err(format!("{}: {}", v.signature, v.detail)),
            None => Ok(()),
        };
    }
    replay_world_case(case)
}
