//! C06 — size trigger rolls exactly when the limit is exceeded; size accounting is exact.
//! E-HIST over the real RollingFileAppender + CompoundPolicy(SizeTrigger, FixedWindowRoller) wrapped in
//! an observing Policy that compares len_estimate() with the true file size at every consultation.

use super::rolling::*;
use crate::engine::{Ctx, Report, Tier};

pub fn worlds(tier: Tier) -> Vec<World> {
    let mut v = vec![];
    let limits: &[u64] = &[0, 1, 10, 1024, 1030];
    for &n in limits {
        let mut sizes: Vec<u32> = vec![0, 1, n.saturating_sub(1) as u32, n as u32, n as u32 + 1];
        if tier == Tier::Thorough || n >= 10 {
            sizes.push(1500);
        }
        sizes.sort();
        sizes.dedup();
        let mut pres: Vec<Option<u32>> = vec![None, Some(0), Some(n.saturating_sub(1) as u32), Some(n as u32), Some(n as u32 + 1)];
        pres.dedup();
        for pre in pres {
            for append in [true, false] {
                if tier == Tier::Quick && !append && matches!(pre, Some(p) if p as u64 + 1 == n) {
                    continue;
                }
                v.push(World {
                    append,
                    trig: Trig::Size(n),
                    roller: RollerK::Fixed { base: 0, count: 2, ext: "" },
                    pre,
                    sizes: sizes.clone(),
                    multibyte: n >= 10,
                    restart: true,
                });
            }
        }
    }
    v
}

pub fn run(ctx: &Ctx) -> Report {
    let mut rep = Report::new("model_checking");
    rep.set(
        "rule",
        "E-HIST: breadth-first exploration of the reference model of appender+SizeTrigger(N)+FixedWindowRoller for every world (limit N, pre-existing size, open mode), \
         operations append(size in {0,1,N-1,N,N+1,1500}) and restart; every transition out of every distinct model state is replayed from scratch on the real appender; after \
         every step: len_estimate() == fs::metadata().len() at the consultation, rolled <=> size > N, directory == model. States are distinct model layouts (sizes per file)",
    );
    let depth = ctx.tier.pick(5, 7);
    run_worlds(ctx, &mut rep, &worlds(ctx.tier), depth);
    rep.assume("nobody else writes to the log file; window of 2 archives (the roller itself is C07)");
    rep
}

pub fn replay(case: &serde_json::Value) -> Result<(), String> {
    replay_world_case(case)
}
