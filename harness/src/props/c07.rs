//! C07 — the fixed-window roller keeps the newest `count` files at base..base+count-1.
//! Exhaustive over (base, count, pattern shape, initial directory state incl. every subset of the
//! window and bystander files) x chains of successive rolls, full recursive snapshot after every roll.

use crate::engine::{
    catch_panic, panic_site,
    sandbox::{decode_by_ext, show_bytes, snapshot, Entry, Sandbox},
    Ctx, Report, Tier,
};
use log4rs::append::rolling_file::policy::compound::roll::{delete::DeleteRoller, fixed_window::FixedWindowRoller, Roll};
use rayon::prelude::*;
use serde_json::{json, Value};
use std::collections::{BTreeMap, BTreeSet};

#[derive(Clone, Debug, PartialEq)]
pub struct Case {
    /// pattern relative to the sandbox, e.g. "arch/foo.{}.log"
    pub pattern: String,
    pub base: u32,
    pub count: u32,
    /// window slots (offset from base) that hold an archive initially
    pub initial: Vec<u32>,
    pub bystanders: bool,
    pub rolls: u32,
    pub delete_roller: bool,
}

fn case_json(c: &Case) -> Value {
    json!({"pattern": c.pattern, "base": c.base, "count": c.count, "initial": c.initial, "bystanders": c.bystanders, "rolls": c.rolls, "delete_roller": c.delete_roller})
}

fn case_from_json(v: &Value) -> Option<Case> {
    Some(Case {
        pattern: v["pattern"].as_str()?.to_owned(),
        base: v["base"].as_u64()? as u32,
        count: v["count"].as_u64()? as u32,
        initial: v["initial"].as_array()?.iter().filter_map(|x| x.as_u64().map(|n| n as u32)).collect(),
        bystanders: v["bystanders"].as_bool()?,
        rolls: v["rolls"].as_u64()? as u32,
        delete_roller: v["delete_roller"].as_bool()?,
    })
}

/// the reference expansion used for names (same scanner as C19; V is set, U is not)
fn name_for(pattern: &str, idx: u64) -> String {
    pattern.replace("{}", &idx.to_string()).replace("$ENV{C07V}", "envdir")
}

pub fn check(c: &Case) -> Option<(String, String)> {
    check_exdev(c, None).0
}

/// `exdev_at`: environment deviation — the k-th `rename` of the whole chain answers EXDEV (the archive
/// directory is on another mount), so `move_file` must fall back to copy + delete and produce exactly the
/// same directory.  Returns the verdict and the number of renames the chain issued.
pub fn check_exdev(c: &Case, exdev_at: Option<usize>) -> (Option<(String, String)>, usize) {
    let r = check_inner(c, exdev_at);
    let n = crate::engine::fsfault::end().map_or(0, |(calls, _)| calls.len());
    (r, n)
}

fn check_inner(c: &Case, exdev_at: Option<usize>) -> Option<(String, String)> {
    std::env::set_var("C07V", "envdir");
    std::env::remove_var("C07U");
    let sb = Sandbox::new();
    let live = "live/app.log";
    std::fs::create_dir_all(sb.path("live")).unwrap();
    // expected directory: relative name -> decoded content
    let mut model: BTreeMap<String, Vec<u8>> = BTreeMap::new();
    let write = |rel: &str, content: &[u8], model: &mut BTreeMap<String, Vec<u8>>| {
        let p = sb.path(rel);
        std::fs::create_dir_all(p.parent().unwrap()).unwrap();
        let raw: Vec<u8> = if rel.ends_with(".gz") {
            use std::io::Write;
            let mut e = flate2::write::GzEncoder::new(vec![], flate2::Compression::default());
            e.write_all(content).unwrap();
            e.finish().unwrap()
        } else if rel.ends_with(".zst") {
            zstd::stream::encode_all(content, 0).unwrap()
        } else {
            content.to_vec()
        };
        std::fs::write(p, raw).unwrap();
        model.insert(rel.to_string(), content.to_vec());
    };
    for off in &c.initial {
        let idx = c.base as u64 + *off as u64;
        write(&name_for(&c.pattern, idx), format!("old-{}", off).as_bytes(), &mut model);
    }
    if c.bystanders {
        // near misses: index just outside the window, non-numeric index, the pattern text itself, unrelated file
        let mut names = vec![name_for(&c.pattern, c.base as u64 + c.count as u64), c.pattern.replace("{}", "x"), c.pattern.replace("{}", "").replace("$ENV{C07V}", "envdir"), "arch/unrelated.txt".to_string(), "live/app.log.bak".to_string()];
        if c.base > 0 {
            names.push(name_for(&c.pattern, c.base as u64 - 1));
        }
        names.push(name_for(&c.pattern, (c.base as u64) * 10 + 1 + 100));
        for n in names {
            if !model.contains_key(&n) && n != live && !n.ends_with('/') && !n.contains("//") {
                // bystanders are plain bytes whatever their extension says (they are never decoded by the roller)
                let p = sb.path(&n);
                std::fs::create_dir_all(p.parent().unwrap()).unwrap();
                if p.is_dir() {
                    continue;
                }
                std::fs::write(&p, format!("by-{}", n)).unwrap();
                model.insert(n.clone(), format!("by-{}", n).into_bytes());
            }
        }
    }
    let window: Vec<String> = (0..c.count as u64).map(|o| name_for(&c.pattern, c.base as u64 + o)).collect();
    let bystander_names: BTreeSet<String> = model.keys().filter(|k| !window.contains(k)).cloned().collect();
    let roller: Box<dyn Roll> = if c.delete_roller {
        Box::new(DeleteRoller::new())
    } else {
        match catch_panic(|| FixedWindowRoller::builder().base(c.base).build(&format!("{}/{}", sb.dir.display(), c.pattern), c.count)) {
            Ok(Ok(r)) => Box::new(r),
            Ok(Err(e)) => return Some(("build-failed".into(), e.to_string())),
            Err(p) => return Some((format!("panic-build:{}", panic_site(&p)), p)),
        }
    };
    // An initial state without archives and bystanders is also a state without the archive *directory*: whatever
    // building the roller may have created is taken away again before the first roll (for patterns whose archives
    // do not share the live file's directory), and once more before the last roll of the chain.
    let bare = c.initial.is_empty() && !c.bystanders && !c.delete_roller && c.count > 0 && c.pattern.starts_with("arch/");
    if bare {
        let _ = std::fs::remove_dir_all(sb.path("arch"));
    }
    if let Some(k) = exdev_at {
        crate::engine::fsfault::begin(&sb.dir, crate::engine::fsfault::Plan { fail: vec![(k, libc::EXDEV)], snapshots: false, kinds: vec!["rename"], short: vec![] });
        crate::engine::fsfault::arm();
    }
    for k in 0..c.rolls {
        let content = format!("roll-{}", k).into_bytes();
        std::fs::write(sb.path(live), &content).unwrap();
        let r = catch_panic(|| roller.roll(&sb.path(live)));
        match r {
            Err(p) => return Some((format!("panic-roll:{}", panic_site(&p)), format!("roll #{}: {}", k, p))),
            Ok(Err(e)) => return Some(("roll-error".into(), format!("roll #{} failed: {}", k, e))),
            Ok(Ok(())) => {}
        }
        // reference.  A window without holes (occupied slots = 0..k) is a shift register and must match exactly.
        // For a window with holes the property only promises tolerance, so every outcome consistent with it is
        // accepted: the rolled file at the first slot, and behind it, in slot order, an order-preserving selection
        // of the archives that were there (each intact) — the implementation may close the hole or carry it along.
        let occupied: Vec<usize> = (0..c.count as usize).filter(|i| model.contains_key(&window[*i])).collect();
        let holes = !c.delete_roller && c.count > 0 && occupied.iter().enumerate().any(|(k, i)| k != *i);
        let before_in_order: Vec<Vec<u8>> = occupied.iter().map(|i| model[&window[*i]].clone()).collect();
        let optional: BTreeSet<String> = BTreeSet::new();
        if !c.delete_roller && c.count > 0 && !holes {
            for o in (0..c.count.saturating_sub(1)).rev() {
                let src = &window[o as usize];
                let dst = &window[o as usize + 1];
                if let Some(v) = model.remove(src) {
                    model.insert(dst.clone(), v);
                }
            }
            model.insert(window[0].clone(), content.clone());
        }
        // observe (background-rotation build: wait until the library's rotation thread is done)
        super::rolling::wait_quiescent(&sb.path("live"));
        let snap = snapshot(&sb.dir);
        if snap.contains_key(live) {
            return Some(("rolled-file-still-present".into(), format!("after roll #{} the rolled file still exists at its original path", k)));
        }
        let mut got: BTreeMap<String, Vec<u8>> = BTreeMap::new();
        for (name, e) in &snap {
            if let Entry::File(b) = e {
                let dec = if window.contains(name) { decode_by_ext(name, b) } else { Ok(b.clone()) };
                match dec {
                    Ok(d) => {
                        got.insert(name.clone(), d);
                    }
                    Err(e) => return Some(("archive:corrupt-compressed-file".into(), format!("{}: {}", name, e))),
                }
            }
        }
        if holes {
            let first = got.get(&window[0]);
            if first != Some(&content) {
                return Some(("window:rolled-file-not-at-first-slot".into(), format!("after roll #{}: {} holds {:?}, expected the rolled file {:?}", k, window[0], first.map(|b| show_bytes(b)), show_bytes(&content))));
            }
            let behind: Vec<&Vec<u8>> = window.iter().skip(1).filter_map(|w| got.get(w)).collect();
            let mut it = before_in_order.iter();
            for b in &behind {
                if !it.any(|x| x == *b) {
                    return Some((
                        "window:order-or-content-with-holes".into(),
                        format!("after roll #{}: behind the rolled file the window holds {:?}, which is not an order-preserving selection of the former archives {:?}", k, behind.iter().map(|b| show_bytes(b)).collect::<Vec<_>>(), before_in_order.iter().map(|b| show_bytes(b)).collect::<Vec<_>>()),
                    ));
                }
            }
            // adopt the window the implementation produced; everything outside the window is compared as usual
            for w in &window {
                model.remove(w);
                if let Some(b) = got.get(w) {
                    model.insert(w.clone(), b.clone());
                }
            }
        }
        for o in optional {
            // tolerated either way; adopt what the implementation did
            if !got.contains_key(&o) {
                model.remove(&o);
            }
        }
        if got != model {
            for (name, w) in &model {
                match got.get(name) {
                    None => {
                        let sig = if bystander_names.contains(name) { "bystander:removed" } else { "window:archive-missing" };
                        return Some((sig.into(), format!("after roll #{}: {} is missing (expected {:?}); directory: {:?}", k, name, show_bytes(w), got.keys().collect::<Vec<_>>())));
                    }
                    Some(g) if g != w => {
                        let sig = if bystander_names.contains(name) { "bystander:modified" } else { "window:wrong-content" };
                        return Some((sig.into(), format!("after roll #{}: {} holds {:?}, expected {:?}", k, name, show_bytes(g), show_bytes(w))));
                    }
                    _ => {}
                }
            }
            for name in got.keys() {
                if !model.contains_key(name) {
                    let sig = if window.contains(name) { "window:more-than-count-archives" } else { "file-created-outside-window" };
                    return Some((sig.into(), format!("after roll #{}: unexpected file {} ({:?})", k, name, show_bytes(&got[name]))));
                }
            }
        }
        let n_arch = window.iter().filter(|w| got.contains_key(*w)).count();
        if n_arch > c.count as usize {
            return Some(("window:more-than-count-archives".into(), format!("{} archives for count {}", n_arch, c.count)));
        }
    }
    None
}

fn subsets(n: u32) -> Vec<Vec<u32>> {
    (0..(1u32 << n)).map(|m| (0..n).filter(|i| m & (1 << i) != 0).collect()).collect()
}

pub fn cases(tier: Tier) -> Vec<Case> {
    let patterns = [
        "arch/foo.{}.log",
        "arch/{}/foo.log",
        "arch/{}/foo.{}.log",
        "$ENV{C07V}/foo.{}",
        "$ENV{C07U}/foo.{}",
        "arch/foo.{}.log.gz",
        "arch/foo.{}.zst",
        "live/app.log.{}",
        "arch/{}.{}",
    ];
    let mut v = vec![];
    let bases: &[u32] = &[0, 1, 3, 4_000_000_000];
    for p in patterns {
        for &base in bases {
            for count in 0..=tier.pick(5u32, 6u32) {
                for init in subsets(count) {
                    for by in [false, true] {
                        v.push(Case { pattern: p.to_string(), base, count, initial: init.clone(), bystanders: by, rolls: count + 3, delete_roller: false });
                    }
                }
            }
        }
        // the corner base+count-1 == u32::MAX
        // ... and windows that reach beyond it (the indices are plain integers: 4294967295, 4294967296, ...)
        for (base, count) in [(u32::MAX, 1u32), (u32::MAX - 1, 2), (u32::MAX - 2, 3), (u32::MAX, 2), (u32::MAX - 1, 3), (u32::MAX, 3)] {
            for init in subsets(count) {
                v.push(Case { pattern: p.to_string(), base, count, initial: init, bystanders: false, rolls: count + 2, delete_roller: false });
            }
        }
    }
    for by in [false, true] {
        v.push(Case { pattern: "arch/foo.{}.log".into(), base: 0, count: 2, initial: vec![0, 1], bystanders: by, rolls: 3, delete_roller: true });
    }
    v
}

pub fn run(ctx: &Ctx) -> Report {
    let mut rep = Report::new("model_checking");
    rep.set(
        "rule",
        "exhaustive over pattern shape (index in file name / directory component / repeated / with set and unset $ENV / .gz / .zst / next to the active file) x base {0,1,3,4e9, corners base+count-1 = u32::MAX and beyond} \
         x count 0..4(5) x every subset of the window as initial archives (gaps) x bystander files (index just outside the window, non-numeric index, the pattern text, unrelated files) x chains of count+3 rolls; \
         recursive snapshot after every roll compared with a shift-register reference; each roll of each chain is one evaluation. Non-trivial = case with count >= 2 or bystanders",
    );
    let cs = cases(ctx.tier);
    // cases with a huge base run under a watchdog: a roller whose work grows with the base value would not come back
    let (small, huge): (Vec<usize>, Vec<usize>) = (0..cs.len()).partition(|i| cs[*i].base < 1_000_000);
    let mut bad: Vec<(usize, (String, String))> = small.par_iter().filter_map(|i| if ctx.over_cap() { None } else { check(&cs[*i]).map(|m| (*i, m)) }).collect();
    // they run in a worker process that can be killed: a roller that walks the index space creates files and
    // directories at full speed, so the worker is stopped at the watchdog interval *or* as soon as the scratch
    // file system has lost 400 000 inodes, and its scratch (below this process's root) is removed with ours
    let tier_arg = if ctx.tier == Tier::Quick { "quick" } else { "thorough" };
    let inodes_at_start = crate::engine::sandbox::free_inodes();
    let o = crate::engine::proc::run_child_guarded(&ctx.exe, "c07huge", &[tier_arg.to_string()], &[], std::time::Duration::from_secs(ctx.tier.pick(20, 600)), &|| {
        match (inodes_at_start, crate::engine::sandbox::free_inodes()) {
            (Some(a), Some(b)) => a.saturating_sub(b) > 400_000,
            _ => false,
        }
    });
    let mut seen_huge = 0usize;
    let mut finished = false;
    for v in o.json_lines() {
        if v["kind"] == "result" {
            seen_huge += 1;
            if let (Some(i), Some(sg)) = (v["index"].as_u64(), v["sig"].as_str()) {
                bad.push((i as usize, (sg.to_string(), v["detail"].as_str().unwrap_or("").to_string())));
            }
        }
        if v["kind"] == "stat" {
            finished = true;
        }
    }
    if !finished {
        if o.timed_out {
            bad.push((huge[0], ("roll-does-not-return".into(), format!("{} of {} cases with base >= 4e9 did not finish within the watchdog interval (or kept creating files): the work of a roll must not grow with the base value", huge.len() - seen_huge.min(huge.len()), huge.len()))));
        } else {
            eprintln!("MACHINERY FAILURE: the worker for the huge-base cases died: status {:?}: {}", o.status, String::from_utf8_lossy(&o.stderr).lines().last().unwrap_or(""));
            std::process::exit(2);
        }
    }
    bad.sort_by_key(|(i, _)| *i);
    rep.set("cases", cs.len() as u64);
    rep.set("evaluations", cs.iter().map(|c| c.rolls as u64).sum::<u64>());
    rep.set("distinct_nontrivial", cs.iter().filter(|c| c.count >= 2 || c.bystanders).count() as u64);
    rep.set("exhaustive", !ctx.over_cap());
    for (i, (s, d)) in bad {
        rep.violation(s, format!("{:?}: {}", cs[i], d), case_json(&cs[i]));
    }
    // environment deviation: every single rename of a chain answers EXDEV once (copy + delete fallback)
    let sub: Vec<&Case> = cs
        .iter()
        .filter(|c| !c.delete_roller && c.count >= 1 && c.count <= 3 && c.base <= 1 && !c.bystanders && (c.pattern == "arch/foo.{}.log" || c.pattern == "arch/{}/foo.log" || c.pattern == "arch/foo.{}.log.gz") && (c.initial.len() as u32 == c.count || c.initial.is_empty()))
        .collect();
    let ex: Vec<(u64, Vec<(usize, usize, (String, String))>)> = sub
        .par_iter()
        .enumerate()
        .map(|(i, c)| {
            let (_, n) = check_exdev(c, Some(usize::MAX));
            let mut bad = vec![];
            for k in 0..n {
                if let (Some(m), _) = check_exdev(c, Some(k)) {
                    bad.push((i, k, m));
                }
            }
            (n as u64, bad)
        })
        .collect();
    let mut n_exdev = 0;
    for (n, bad) in ex {
        n_exdev += n;
        for (i, k, (s, d)) in bad {
            rep.violation(format!("exdev:{}", s), format!("{:?} with rename #{} answering EXDEV: {}", sub[i], k, d), json!({"exdev_at": k, "case": case_json(sub[i])}));
        }
    }
    rep.add("evaluations", n_exdev);
    rep.set("exdev_fault_runs", n_exdev);
    for k in [2usize, 5, 8] {
        rep.sample(case_json(&cs[(ctx.seed as usize * 37 + cs.len() * k / 10) % cs.len()]));
    }
    if let Ok(bin) = std::env::var("VERIF_BG_BIN") {
        let o = crate::engine::proc::run_child(std::path::Path::new(&bin), "c07bg", &[], &[], ctx.cap);
        let mut ok = false;
        for v in o.json_lines() {
            if v["kind"] == "stat" {
                ok = true;
                rep.add("evaluations", v["evaluations"].as_u64().unwrap_or(0));
                rep.set("background_rotation_build", v.clone());
            }
            if v["kind"] == "violation" {
                rep.violation(format!("background-rotation:{}", v["sig"].as_str().unwrap_or("")), v["detail"].as_str().unwrap_or(""), v["case"].clone());
            }
        }
        if !ok {
            eprintln!("MACHINERY FAILURE: background-rotation child failed: {}", String::from_utf8_lossy(&o.stderr));
            std::process::exit(2);
        }
    }
    rep.assume("a window with holes (missing intermediate archives) is only 'tolerated' by the property: accepted is the rolled file at the first slot followed, in slot order, by an order-preserving selection of the former archives, each intact; windows without holes must match the shift register exactly");
    rep.assume("copy+delete fallback of move_file (rename failing with EXDEV) is covered by the fault engine, see exdev_* keys when present");
    rep
}

pub fn replay(case: &Value) -> Result<(), String> {
    if let Some(k) = case.get("exdev_at").and_then(|k| k.as_u64()) {
        let c = case_from_json(&case["case"]).ok_or("bad case")?;
        return match check_exdev(&c, Some(k as usize)).0 {
            None => Ok(()),
            Some((s, d)) => Err(format!("exdev:{}: {}", s, d)),
        };
    }
    let c = case_from_json(case).ok_or("bad case")?;
    match check(&c) {
        None => Ok(()),
        Some((s, d)) => Err(format!("{}: {}", s, d)),
    }
}

/// `child c07bg` — run in the binary built with the `background_rotation` feature
/// worker: the cases with a huge base, one result line per case as it finishes
pub fn child_huge(args: &[String]) -> i32 {
    let tier = if args.first().map(|s| s.as_str()) == Some("thorough") { Tier::Thorough } else { Tier::Quick };
    let cs = cases(tier);
    let huge: Vec<usize> = (0..cs.len()).filter(|i| cs[*i].base >= 1_000_000).collect();
    huge.par_iter().for_each(|i| {
        let r = check(&cs[*i]);
        let line = match r {
            Some((s, d)) => json!({"kind": "result", "index": i, "sig": s, "detail": d}),
            None => json!({"kind": "result", "index": i}),
        };
        use std::io::Write;
        let out = std::io::stdout();
        let mut g = out.lock();
        let _ = writeln!(g, "{}", line);
        let _ = g.flush();
    });
    println!("{}", json!({"kind": "stat", "done": huge.len()}));
    0
}

pub fn child_bg() -> i32 {
    let cs = cases(Tier::Quick);
    let bad: Vec<(usize, (String, String))> = cs.par_iter().enumerate().filter_map(|(i, c)| check(c).map(|m| (i, m))).collect();
    let mut seen = std::collections::BTreeSet::new();
    for (i, (s, d)) in bad {
        if seen.insert(s.clone()) {
            println!("{}", json!({"kind": "violation", "sig": s, "detail": format!("{:?}: {}", cs[i], d), "case": case_json(&cs[i])}));
        }
    }
    println!("{}", json!({"kind": "stat", "feature_background_rotation": cfg!(feature = "background_rotation"), "cases": cs.len(), "evaluations": cs.iter().map(|c| c.rolls as u64).sum::<u64>()}));
    0
}
