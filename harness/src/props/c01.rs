//! C01 (routing) — also produces the in-process half of C02 (enabled()/max_log_level agree).
//!
//! E-ENUM: every configuration of a bounded domain × every probe, real `Logger` with counting
//! appenders against the routing reference model.

use super::routing::*;
use crate::engine::{capture::CountAppender, catch_panic, Ctx, Report, Tier};
use log::{LevelFilter, Log, Metadata, Record};
use rayon::prelude::*;
use serde_json::json;
use std::sync::{
    atomic::{AtomicU64, AtomicUsize, Ordering},
    Arc, Mutex,
};

pub const NAMES: [&str; 6] = ["a", "ab", "a::b", "a::b::c", "a::c", "b"];

pub fn targets() -> Vec<String> {
    let mut t: Vec<String> = vec![];
    for n in NAMES {
        t.push(n.to_owned());
        t.push(format!("{}::x", n));
    }
    for s in [
        "", "a::", "::a", "a:b", "a:", ":a", "abc", "a::bx", "a::b::c::d", "x", "a:::b", "a::b:", "a::b:::c",
    ] {
        t.push(s.to_owned());
    }
    t
}

fn lists(full: bool) -> Vec<Vec<String>> {
    let raw: &[&[&str]] = if full {
        &[&[], &["x"], &["y"], &["x", "y"], &["y", "x"], &["x", "x"], &["y", "y"]]
    } else {
        &[&[], &["x"], &["y"], &["x", "y"]]
    };
    raw.iter()
        .map(|l| l.iter().map(|s| s.to_string()).collect())
        .collect()
}

pub struct Domain {
    pub levels: Vec<LevelFilter>,
    pub lists: Vec<Vec<String>>,
    /// ordered tuples of distinct universe names (declaration order matters)
    pub name_tuples: Vec<Vec<&'static str>>,
    pub appender_orders: Vec<Vec<String>>,
}

impl Domain {
    pub fn per_logger(&self) -> u64 {
        (self.levels.len() * 2 * self.lists.len()) as u64
    }
    pub fn per_root(&self) -> u64 {
        (self.levels.len() * self.lists.len()) as u64
    }
    pub fn size(&self) -> u64 {
        let k = self.name_tuples.first().map_or(0, |t| t.len()) as u32;
        self.name_tuples.len() as u64
            * self.per_logger().pow(k)
            * self.per_root()
            * self.appender_orders.len() as u64
    }
    pub fn decode(&self, mut i: u64) -> ConfSpec {
        let ao = (i % self.appender_orders.len() as u64) as usize;
        i /= self.appender_orders.len() as u64;
        let rl = (i % self.levels.len() as u64) as usize;
        i /= self.levels.len() as u64;
        let rls = (i % self.lists.len() as u64) as usize;
        i /= self.lists.len() as u64;
        let k = self.name_tuples[0].len();
        let mut specs = vec![];
        for _ in 0..k {
            let lv = (i % self.levels.len() as u64) as usize;
            i /= self.levels.len() as u64;
            let ad = i % 2 == 0;
            i /= 2;
            let li = (i % self.lists.len() as u64) as usize;
            i /= self.lists.len() as u64;
            specs.push((lv, ad, li));
        }
        let tuple = &self.name_tuples[i as usize];
        ConfSpec {
            appender_names: self.appender_orders[ao].clone(),
            root_level: self.levels[rl],
            root_appenders: self.lists[rls].clone(),
            loggers: specs
                .into_iter()
                .enumerate()
                .map(|(j, (lv, ad, li))| LoggerSpec {
                    name: tuple[j].to_owned(),
                    level: self.levels[lv],
                    additive: ad,
                    appenders: self.lists[li].clone(),
                })
                .collect(),
        }
    }
}

fn ordered_tuples(k: usize) -> Vec<Vec<&'static str>> {
    fn rec(k: usize, cur: &mut Vec<&'static str>, out: &mut Vec<Vec<&'static str>>) {
        if cur.len() == k {
            out.push(cur.clone());
            return;
        }
        for n in NAMES {
            if !cur.contains(&n) {
                cur.push(n);
                rec(k, cur, out);
                cur.pop();
            }
        }
    }
    let mut out = vec![];
    rec(k, &mut vec![], &mut out);
    out
}

pub fn domains(tier: Tier) -> Vec<(String, Domain)> {
    let l4 = vec![LevelFilter::Off, LevelFilter::Error, LevelFilter::Info, LevelFilter::Trace];
    let l3 = vec![LevelFilter::Off, LevelFilter::Info, LevelFilter::Trace];
    let l2 = vec![LevelFilter::Warn, LevelFilter::Trace];
    let both = vec![vec!["x".to_string(), "y".to_string()], vec!["y".to_string(), "x".to_string()]];
    let one = vec![vec!["x".to_string(), "y".to_string()]];
    let mut v = vec![];
    v.push((
        "0 loggers, all 6 levels, lists<=2 incl. duplicates, both appender orders".to_string(),
        Domain { levels: FILTERS.to_vec(), lists: lists(true), name_tuples: ordered_tuples(0), appender_orders: both.clone() },
    ));
    v.push((
        "1 logger, all 6 levels, lists<=2 incl. duplicates, both appender orders".to_string(),
        Domain { levels: FILTERS.to_vec(), lists: lists(true), name_tuples: ordered_tuples(1), appender_orders: both.clone() },
    ));
    match tier {
        Tier::Quick => {
            v.push((
                "2 loggers (ordered pairs), levels {Off,Info,Trace}, lists {[],[x],[y],[x,y]}, both appender orders".to_string(),
                Domain { levels: l3.clone(), lists: lists(false), name_tuples: ordered_tuples(2), appender_orders: both.clone() },
            ));
            v.push((
                "3 loggers (ordered triples), levels {Warn,Trace}, lists {[],[x]} / root {[],[x],[y],[x,y]}".to_string(),
                Domain { levels: l2.clone(), lists: lists(false)[..2].to_vec(), name_tuples: ordered_tuples(3), appender_orders: one.clone() },
            ));
        }
        Tier::Thorough => {
            v.push((
                "2 loggers (ordered pairs), levels {Off,Error,Info,Trace}, lists<=2 incl. duplicates, both appender orders".to_string(),
                Domain { levels: l4.clone(), lists: lists(true), name_tuples: ordered_tuples(2), appender_orders: both.clone() },
            ));
            v.push((
                "3 loggers (ordered triples), levels {Off,Info,Trace}, lists {[],[x],[y],[x,y]}".to_string(),
                Domain { levels: l3.clone(), lists: lists(false), name_tuples: ordered_tuples(3), appender_orders: one.clone() },
            ));
            v.push((
                "4 loggers (ordered 4-tuples), levels {Warn,Trace}, lists {[],[x]}".to_string(),
                Domain { levels: l2.clone(), lists: lists(false)[..2].to_vec(), name_tuples: ordered_tuples(4), appender_orders: one.clone() },
            ));
        }
    }
    v
}

/// Non-trivial for routing: some declared logger has a declared ancestor (nesting), or a
/// non-additive logger cuts off a root that has appenders.
fn nontrivial(conf: &ConfSpec) -> bool {
    (0..conf.loggers.len()).any(|i| parent_of(conf, i).is_some())
        || (conf.loggers.iter().any(|l| !l.additive) && !conf.root_appenders.is_empty())
}

pub struct Mismatch {
    pub sig: String,
    pub detail: String,
    pub case: serde_json::Value,
}

/// Runs every probe against one configuration.  Returns probes evaluated and mismatches
/// (C01 deliveries, C02 enabled()/max level).
pub fn check_conf(conf: &ConfSpec, targets: &[String]) -> (u64, Vec<Mismatch>, Vec<Mismatch>) {
    let cx = Arc::new(AtomicUsize::new(0));
    let cy = Arc::new(AtomicUsize::new(0));
    let mut c01 = vec![];
    let mut c02 = vec![];
    let built = {
        let (cx, cy) = (cx.clone(), cy.clone());
        build_config(conf, &mut |n| {
            Box::new(CountAppender(if n == "x" { cx.clone() } else { cy.clone() }))
        })
    };
    let config = match built {
        // half of the configurations get their root level through Config::root_mut().set_level after building
        Ok(mut c) => {
            if (conf.loggers.len() + conf.root_appenders.len()) % 2 == 1 {
                let real = c.root().level();
                c.root_mut().set_level(log::LevelFilter::Off);
                c.root_mut().set_level(real);
            }
            c
        }
        Err(e) => {
            c01.push(Mismatch {
                sig: "valid-config-rejected".into(),
                detail: e,
                case: json!({"config": conf_json(conf)}),
            });
            return (0, c01, c02);
        }
    };
    let logger = match catch_panic(|| log4rs::Logger::new(config)) {
        Ok(l) => l,
        Err(p) => {
            c01.push(Mismatch {
                sig: format!("panic-Logger::new:{}", crate::engine::panic_site(&p)),
                detail: p,
                case: json!({"config": conf_json(conf)}),
            });
            return (0, c01, c02);
        }
    };
    let want_max = max_level(conf);
    let got_max = logger.max_log_level();
    if want_max != got_max {
        c02.push(Mismatch {
            sig: "max_log_level".into(),
            detail: format!("max_log_level() = {} but the most verbose configured level is {}", got_max, want_max),
            case: json!({"config": conf_json(conf)}),
        });
    }
    let mut probes = 0;
    for t in targets {
        for level in LEVELS {
            probes += 1;
            cx.store(0, Ordering::Relaxed);
            cy.store(0, Ordering::Relaxed);
            let allowed = routes(conf, t, level);
            let r = catch_panic(|| {
                logger.log(
                    &Record::builder()
                        .target(t)
                        .level(level)
                        .args(format_args!("m"))
                        .build(),
                );
                logger.enabled(&Metadata::builder().target(t).level(level).build())
            });
            let case = || json!({"config": conf_json(conf), "target": t, "level": level.to_string()});
            let enabled = match r {
                Ok(e) => e,
                Err(p) => {
                    c01.push(Mismatch {
                        sig: format!("panic-log:{}", crate::engine::panic_site(&p)),
                        detail: p,
                        case: case(),
                    });
                    continue;
                }
            };
            let gx = cx.load(Ordering::Relaxed);
            let gy = cy.load(Ordering::Relaxed);
            let ok = allowed.iter().any(|r| {
                r.deliveries.get("x").copied().unwrap_or(0) == gx
                    && r.deliveries.get("y").copied().unwrap_or(0) == gy
            });
            if !ok {
                let exp = &allowed[0];
                let kind = if gx + gy == 0 {
                    "missing-delivery"
                } else if exp.deliveries.is_empty() {
                    "unexpected-delivery"
                } else {
                    "wrong-deliveries"
                };
                c01.push(Mismatch {
                    sig: format!("routing:{}", kind),
                    detail: format!(
                        "target {:?} level {}: delivered x={} y={}, reference allows {:?}",
                        t, level, gx, gy, allowed.iter().map(|r| &r.deliveries).collect::<Vec<_>>()
                    ),
                    case: case(),
                });
            }
            if !allowed.iter().any(|r| r.admit == enabled) {
                c02.push(Mismatch {
                    sig: "enabled-vs-threshold".into(),
                    detail: format!(
                        "enabled({:?},{}) = {} but the effective logger's threshold says {}",
                        t, level, enabled, allowed[0].admit
                    ),
                    case: case(),
                });
            }
        }
    }
    (probes, c01, c02)
}

/// the sweep; `which` selects which mismatches become violations of the calling property
pub fn sweep(ctx: &Ctx, rep: &mut Report, which: &str) {
    let targets = targets();
    let mut total_confs = 0u64;
    let mut domain_notes = vec![];
    let mut capped = false;
    for (desc, dom) in domains(ctx.tier) {
        let n = dom.size();
        let probes = AtomicU64::new(0);
        let nontriv = AtomicU64::new(0);
        let done = AtomicU64::new(0);
        let found: Mutex<Vec<(u64, Mismatch)>> = Mutex::new(vec![]);
        (0..n).into_par_iter().for_each(|i| {
            if ctx.over_cap() {
                return;
            }
            let conf = dom.decode(i);
            let (p, m1, m2) = check_conf(&conf, &targets);
            probes.fetch_add(p, Ordering::Relaxed);
            done.fetch_add(1, Ordering::Relaxed);
            if nontrivial(&conf) {
                nontriv.fetch_add(1, Ordering::Relaxed);
            }
            let ms = if which == "C01" { m1 } else { m2 };
            if !ms.is_empty() {
                let mut f = found.lock().unwrap();
                for m in ms {
                    if f.len() < 100_000 {
                        f.push((i, m));
                    }
                }
            }
        });
        let done = done.into_inner();
        if done < n {
            capped = true;
        }
        total_confs += done;
        rep.add("evaluations", probes.into_inner());
        rep.add("configurations", done);
        rep.add("distinct_nontrivial", nontriv.into_inner());
        domain_notes.push(format!("{}: {} of {} configurations", desc, done, n));
        if n > 0 {
            let c = dom.decode((ctx.seed.wrapping_mul(7919) + n / 2) % n);
            rep.sample(json!({"config": conf_json(&c), "probes": "all targets x 5 levels"}));
        }
        let mut f = found.into_inner().unwrap();
        f.sort_by_key(|(i, _)| *i);
        for (_, m) in f {
            rep.violation(m.sig, m.detail, m.case);
        }
    }
    rep.set("domains", json!(domain_notes));
    rep.set("targets", json!(targets));
    rep.set("exhaustive", !capped);
    let _ = total_confs;
}


/// worker: nesting depth of logger names.  Each depth runs on a 2 MiB thread; the depth is announced on stderr
/// first because a stack overflow kills the process.
pub fn child_deep() -> i32 {
    for depth in [8usize, 64, 512, 2000, 5000, 10_000, 30_000, 100_000] {
        eprintln!("T {}", depth);
        let r = std::thread::Builder::new()
            .stack_size(2 << 20)
            .spawn(move || -> Result<(), String> {
                let name = vec!["m"; depth].join("::");
                let hits = Arc::new(AtomicUsize::new(0));
                let root_hits = Arc::new(AtomicUsize::new(0));
                let conf = ConfSpec {
                    appender_names: vec!["x".into(), "y".into()],
                    root_level: LevelFilter::Warn,
                    root_appenders: vec!["y".into()],
                    loggers: vec![LoggerSpec { name: name.clone(), level: LevelFilter::Info, additive: true, appenders: vec!["x".into()] }],
                };
                let (h, rh) = (hits.clone(), root_hits.clone());
                let cfg = build_config(&conf, &mut |n| if n == "x" { Box::new(CountAppender(h.clone())) } else { Box::new(CountAppender(rh.clone())) })?;
                let logger = log4rs::Logger::new(cfg);
                // the deepest logger admits INFO and is additive: x once, y once; one level above it the root decides (WARN): nothing
                let deep_target = format!("{}::leaf", name);
                logger.log(&Record::builder().target(&deep_target).level(log::Level::Info).args(format_args!("r")).build());
                let above = vec!["m"; depth - 1].join("::");
                logger.log(&Record::builder().target(&above).level(log::Level::Info).args(format_args!("r")).build());
                let got = (hits.load(Ordering::SeqCst), root_hits.load(Ordering::SeqCst));
                drop(logger);
                if got != (1, 1) {
                    return Err(format!("deliveries (x, y) = {:?}, expected (1, 1)", got));
                }
                Ok(())
            })
            .unwrap()
            .join();
        match r {
            Ok(Ok(())) => {}
            Ok(Err(e)) => println!("{}", json!({"kind": "violation", "sig": "deep-logger-name:wrong-routing", "detail": format!("logger name with {} components: {}", depth, e), "case": {"deep_logger_name_components": depth}})),
            Err(_) => println!("{}", json!({"kind": "violation", "sig": "deep-logger-name:panic", "detail": format!("logger name with {} components", depth), "case": {"deep_logger_name_components": depth}})),
        }
    }
    println!("{}", json!({"kind": "stat"}));
    0
}

pub fn run(ctx: &Ctx) -> Report {
    let mut rep = Report::new("model_checking");
    rep.set(
        "rule",
        "E-ENUM: every configuration of each listed domain (logger names from a colliding universe, \
         every declaration order) x every target x 5 levels through Logger::log with counting appenders, \
         compared with the reference router; non-trivial = configuration with nested declared loggers or a \
         non-additive logger above a root with appenders (distinct by construction: each index decodes to a \
         different configuration)",
    );
    sweep(ctx, &mut rep, "C01");
    // nesting depth: one logger whose name has 8 ... 100 000 components, on a 2 MiB stack
    {
        let o = crate::engine::proc::run_child(&ctx.exe, "c01deep", &[], &[], ctx.cap);
        let lines = o.json_lines();
        for v in &lines {
            if v["kind"] == "violation" {
                rep.violation(v["sig"].as_str().unwrap_or("?"), v["detail"].as_str().unwrap_or(""), v["case"].clone());
            }
        }
        rep.add("evaluations", 16);
        if !lines.iter().any(|v| v["kind"] == "stat") {
            let depth: u64 = String::from_utf8_lossy(&o.stderr).lines().filter_map(|l| l.strip_prefix("T ").and_then(|d| d.trim().parse().ok())).last().unwrap_or(0);
            rep.violation(
                "deep-logger-name:stack-overflow",
                format!("the process died (status {:?}) building, using or dropping a logger whose name has {} '::'-separated components on a 2 MiB stack: {}", o.status, depth, String::from_utf8_lossy(&o.stderr).lines().last().unwrap_or("")),
                json!({"deep_logger_name_components": depth}),
            );
            rep.set("deepest_logger_name_survived_below", depth);
        }
    }
    rep.assume("logger-name universe {a,ab,a::b,a::b::c,a::c,b}; appender names {x,y}; larger trees are outside the bound");
    rep
}

pub fn replay(case: &serde_json::Value) -> Result<(), String> {
    let conf = conf_from_json(&case["config"]).ok_or("bad case")?;
    let targets: Vec<String> = match case["target"].as_str() {
        Some(t) => vec![t.to_owned()],
        None => targets(),
    };
    let (_, m1, m2) = check_conf(&conf, &targets);
    match m1.into_iter().chain(m2).next() {
        Some(m) => Err(format!("{}: {}", m.sig, m.detail)),
        None => Ok(()),
    }
}
