//! C03 — filter chains decide per appender; rejections and errors are isolated.
//! E-ENUM over chains x failing/healthy appenders x levels, scripted filters that log every
//! consultation, real ThresholdFilter wrapped in a logging shell.

use crate::engine::{
    capture::{Event, EventLog, LogAppender, Resp, ScriptFilter},
    catch_panic, panic_site, Ctx, Report, Tier,
};
use log::{Level, LevelFilter, Log, Record};
use log4rs::{
    config::{Appender, Config, Logger, Root},
    filter::{threshold::ThresholdFilter, Filter, Response},
};
use rayon::prelude::*;
use serde_json::{json, Value};
use std::sync::{Arc, Mutex};

use super::routing::{admits, FILTERS, LEVELS};

#[derive(Clone, Copy, Debug, PartialEq, Eq)]
pub enum F {
    A,
    N,
    R,
    T(LevelFilter),
}

impl F {
    fn name(self) -> String {
        match self {
            F::A => "Accept".into(),
            F::N => "Neutral".into(),
            F::R => "Reject".into(),
            F::T(l) => format!("Threshold({})", l),
        }
    }
    fn parse(s: &str) -> Option<F> {
        Some(match s {
            "Accept" => F::A,
            "Neutral" => F::N,
            "Reject" => F::R,
            _ => {
                let l = s.strip_prefix("Threshold(")?.strip_suffix(')')?;
                F::T(l.parse().ok()?)
            }
        })
    }
    /// reference semantics of one filter
    fn answer(self, level: Level) -> Resp {
        match self {
            F::A => Resp::Accept,
            F::N => Resp::Neutral,
            F::R => Resp::Reject,
            // the threshold filter rejects exactly the records more verbose than its level
            F::T(th) => {
                if admits(th, level) {
                    Resp::Neutral
                } else {
                    Resp::Reject
                }
            }
        }
    }
}

/// logs the consultation, then asks the real ThresholdFilter
#[derive(Debug)]
struct LoggedThreshold {
    appender: usize,
    index: usize,
    inner: ThresholdFilter,
    log: EventLog,
}

impl Filter for LoggedThreshold {
    fn filter(&self, record: &Record) -> Response {
        self.log.lock().unwrap().push(Event::Filter {
            appender: self.appender,
            index: self.index,
        });
        self.inner.filter(record)
    }
}

#[derive(Clone, Debug)]
pub struct App {
    pub chain: Vec<F>,
    pub fail: bool,
}

#[derive(Clone, Debug)]
pub struct Case {
    /// appenders attached to logger "t" (in order); the last one is attached to the root and inherited
    pub apps: Vec<App>,
    pub logger_level: LevelFilter,
    pub level: Level,
}

fn case_json(c: &Case) -> Value {
    json!({
        "appenders": c.apps.iter().map(|a| json!({"chain": a.chain.iter().map(|f| f.name()).collect::<Vec<_>>(), "fail": a.fail})).collect::<Vec<_>>(),
        "logger_level": c.logger_level.to_string(),
        "level": c.level.to_string(),
    })
}

fn case_from_json(v: &Value) -> Option<Case> {
    Some(Case {
        apps: v["appenders"]
            .as_array()?
            .iter()
            .map(|a| App {
                chain: a["chain"]
                    .as_array()
                    .map(|c| c.iter().filter_map(|f| F::parse(f.as_str()?)).collect())
                    .unwrap_or_default(),
                fail: a["fail"].as_bool().unwrap_or(false),
            })
            .collect(),
        logger_level: v["logger_level"].as_str()?.parse().ok()?,
        level: v["level"].as_str()?.parse().ok()?,
    })
}

/// the distinct `fail-<n>` tags occurring in an error's rendered cause chain, joined by '+'
/// (exactly one is expected: the failing appender's own error, possibly wrapped in context)
fn fail_tags(text: &str) -> String {
    let mut tags: Vec<String> = vec![];
    let mut rest = text;
    while let Some(i) = rest.find("fail-") {
        let digits: String = rest[i + 5..].chars().take_while(|c| c.is_ascii_digit()).collect();
        let t = format!("fail-{}", digits);
        if !digits.is_empty() && !tags.contains(&t) {
            tags.push(t);
        }
        rest = &rest[i + 5..];
    }
    if tags.is_empty() {
        format!("untagged:{}", text)
    } else {
        tags.join("+")
    }
}

/// the ways a filter chain can be handed to the appender builder; all must give the declared chain
const BUILDER_HISTORIES: [&str; 5] = [
    "filter() per filter",
    "one filters() call",
    "filter(first) then filters(rest)",
    "filters(first half) then filters(second half)",
    "filters(all but last) then filter(last)",
];

/// Returns None if the case conforms under every builder history, else (signature, detail).
pub fn check(c: &Case) -> Option<(String, String)> {
    let longest = c.apps.iter().map(|a| a.chain.len()).max().unwrap_or(0);
    for (h, name) in BUILDER_HISTORIES.iter().enumerate() {
        if h > 0 && longest == 0 || h > 1 && longest < 2 {
            continue;
        }
        if let Some((s, d)) = check_history(c, h) {
            return Some((s, format!("[chain built by {}] {}", name, d)));
        }
    }
    None
}

fn check_history(c: &Case, history: usize) -> Option<(String, String)> {
    let log: EventLog = Arc::new(Mutex::new(vec![]));
    let n = c.apps.len();
    let mut b = Config::builder();
    for (i, a) in c.apps.iter().enumerate() {
        let mut ab = Appender::builder();
        let mut boxed: Vec<Box<dyn Filter>> = vec![];
        for (j, f) in a.chain.iter().enumerate() {
            let fb: Box<dyn Filter> = match f {
                F::T(th) => Box::new(LoggedThreshold {
                    appender: i,
                    index: j,
                    inner: ThresholdFilter::new(*th),
                    log: log.clone(),
                }),
                other => Box::new(ScriptFilter {
                    appender: i,
                    index: j,
                    resp: match other {
                        F::A => Resp::Accept,
                        F::N => Resp::Neutral,
                        _ => Resp::Reject,
                    },
                    log: log.clone(),
                }),
            };
            boxed.push(fb);
        }
        let len = boxed.len();
        let cut = match history {
            2 => 1.min(len),
            3 => len / 2,
            4 => len.saturating_sub(1),
            _ => 0,
        };
        let tail: Vec<Box<dyn Filter>> = boxed.split_off(cut);
        match history {
            0 => {
                for fb in tail {
                    ab = ab.filter(fb);
                }
            }
            1 => ab = ab.filters(tail),
            2 => {
                for fb in boxed {
                    ab = ab.filter(fb);
                }
                ab = ab.filters(tail);
            }
            3 => {
                ab = ab.filters(boxed);
                ab = ab.filters(tail);
            }
            _ => {
                ab = ab.filters(boxed);
                for fb in tail {
                    ab = ab.filter(fb);
                }
            }
        }
        b = b.appender(ab.build(
            format!("p{}", i),
            Box::new(LogAppender {
                id: i,
                fail: a.fail,
                log: log.clone(),
            }),
        ));
    }
    let own: Vec<String> = (0..n.saturating_sub(1)).map(|i| format!("p{}", i)).collect();
    let rootapps: Vec<String> = if n > 0 { vec![format!("p{}", n - 1)] } else { vec![] };
    let config = b
        .logger(Logger::builder().appenders(own).build("t", c.logger_level))
        .build(Root::builder().appenders(rootapps).build(LevelFilter::Trace));
    let config = match config {
        Ok(c) => c,
        Err(e) => return Some(("valid-config-rejected".into(), format!("{}", e))),
    };
    let hlog = log.clone();
    let logger = log4rs::Logger::new_with_err_handler(
        config,
        Box::new(move |e: &anyhow::Error| {
            // the property does not fix the wording: the appender's own error may arrive wrapped in
            // context, so it is identified by the tag found anywhere in the cause chain
            hlog.lock().unwrap().push(Event::Error { tag: fail_tags(&format!("{:#}", e)) });
        }),
    );
    let admitted = admits(c.logger_level, c.level);
    // two records in a row: the second one must be treated exactly like the first
    for round in 0..2 {
        log.lock().unwrap().clear();
        let msg = format!("m{}", round);
        let r = catch_panic(|| {
            logger.log(
                &Record::builder()
                    .target("t::sub")
                    .level(c.level)
                    .args(format_args!("{}", msg))
                    .build(),
            )
        });
        if let Err(p) = r {
            return Some((format!("panic:{}", panic_site(&p)), p));
        }
        let events = log.lock().unwrap().clone();
        let mut want_errors: Vec<String> = vec![];
        for (i, a) in c.apps.iter().enumerate() {
            // reference: consult the chain in order up to and including the first non-Neutral answer
            let mut want_consult = vec![];
            let mut deliver = admitted;
            if admitted {
                for (j, f) in a.chain.iter().enumerate() {
                    want_consult.push(j);
                    match f.answer(c.level) {
                        Resp::Accept => break,
                        Resp::Neutral => {}
                        Resp::Reject => {
                            deliver = false;
                            break;
                        }
                    }
                }
            }
            if deliver && a.fail {
                want_errors.push(format!("fail-{}", i));
            }
            let got_consult: Vec<usize> = events
                .iter()
                .filter_map(|e| match e {
                    Event::Filter { appender, index } if *appender == i => Some(*index),
                    _ => None,
                })
                .collect();
            let got_deliver: Vec<&String> = events
                .iter()
                .filter_map(|e| match e {
                    Event::Deliver { appender, msg } if *appender == i => Some(msg),
                    _ => None,
                })
                .collect();
            let want_n = if deliver { 1 } else { 0 };
            if got_deliver.len() != want_n {
                let kind = if got_deliver.len() > want_n {
                    if want_n == 0 { "delivered-despite-reject" } else { "duplicate-delivery" }
                } else {
                    "not-delivered"
                };
                return Some((
                    format!("filter-chain:{}", kind),
                    format!(
                        "appender p{} (round {}): {} deliveries, expected {}; consultations {:?}",
                        i, round, got_deliver.len(), want_n, got_consult
                    ),
                ));
            }
            if got_deliver.iter().any(|m| **m != msg) {
                return Some(("filter-chain:wrong-record".into(), format!("appender p{} got {:?}", i, got_deliver)));
            }
            if got_consult != want_consult {
                return Some((
                    "filter-chain:consultation-order".into(),
                    format!(
                        "appender p{} (round {}): filters consulted {:?}, expected {:?}",
                        i, round, got_consult, want_consult
                    ),
                ));
            }
            // delivery must come after the consultations of that appender
            let last_filter = events.iter().rposition(|e| matches!(e, Event::Filter { appender, .. } if *appender == i));
            let first_deliver = events.iter().position(|e| matches!(e, Event::Deliver { appender, .. } if *appender == i));
            if let (Some(f), Some(d)) = (last_filter, first_deliver) {
                if d < f {
                    return Some(("filter-chain:deliver-before-filter".into(), format!("appender p{}: {:?}", i, events)));
                }
            }
        }
        let mut got_errors: Vec<String> = events
            .iter()
            .filter_map(|e| match e {
                // one hand-over may carry several appender errors (an aggregate): what must hold is that
                // each failing appender's error is handed over exactly once in all
                Event::Error { tag } => Some(tag.split('+').map(|t| t.to_owned()).collect::<Vec<_>>()),
                _ => None,
            })
            .flatten()
            .collect();
        got_errors.sort();
        want_errors.sort();
        if got_errors != want_errors {
            return Some((
                "error-handler".into(),
                format!("handler received {:?}, expected one call per failing reached appender {:?}", got_errors, want_errors),
            ));
        }
        // different appenders that fail with the *same* text (two files on one full disk) are still different
        // errors: each is handed over once
        if round == 1 && want_errors.len() >= 2 {
            log.lock().unwrap().clear();
            crate::engine::capture::SAME_ERROR_TEXT.with(|c| c.set(true));
            let r = catch_panic(|| logger.log(&Record::builder().target("t::sub").level(c.level).args(format_args!("m2")).build()));
            crate::engine::capture::SAME_ERROR_TEXT.with(|c| c.set(false));
            if let Err(p) = r {
                return Some((format!("panic:{}", panic_site(&p)), p));
            }
            let got: usize = log.lock().unwrap().iter().map(|e| match e { Event::Error { tag } => tag.matches("disk full").count(), _ => 0 }).sum();
            if got != want_errors.len() {
                return Some((
                    "error-handler:same-text".into(),
                    format!("{} reached appenders fail with the same error text, the handler was handed {} errors", want_errors.len(), got),
                ));
            }
        }
    }
    None
}

fn chains(alpha: &[F], max_len: usize) -> Vec<Vec<F>> {
    let mut out = vec![vec![]];
    let mut frontier = vec![vec![]];
    for _ in 0..max_len {
        let mut next = vec![];
        for c in &frontier {
            for f in alpha {
                let mut n: Vec<F> = c.clone();
                n.push(*f);
                next.push(n);
            }
        }
        out.extend(next.iter().cloned());
        frontier = next;
    }
    out
}

pub fn cases(tier: Tier) -> Vec<(String, Vec<Case>)> {
    let anr = [F::A, F::N, F::R];
    let mut groups = vec![];
    // (1) one appender, every chain
    let single_len = tier.pick(6, 8);
    let mut g = vec![];
    for ch in chains(&anr, single_len) {
        for fail in [false, true] {
            for level in [Level::Error, Level::Trace] {
                g.push(Case { apps: vec![App { chain: ch.clone(), fail }], logger_level: LevelFilter::Trace, level });
            }
        }
    }
    groups.push((format!("single appender (inherited from root), all chains over {{A,N,R}} up to length {}", single_len), g));
    // (2) threshold filter, alone and combined
    let mut g = vec![];
    for th in FILTERS {
        let mut shapes: Vec<Vec<F>> = vec![
            vec![F::T(th)],
            vec![F::T(th), F::A],
            vec![F::T(th), F::R],
            vec![F::T(th), F::N],
            vec![F::N, F::T(th)],
            vec![F::A, F::T(th)],
            vec![F::R, F::T(th)],
        ];
        for th2 in FILTERS {
            shapes.push(vec![F::T(th), F::T(th2)]);
        }
        for ch in shapes {
            for level in LEVELS {
                for fail in [false, true] {
                    for ll in [LevelFilter::Trace, LevelFilter::Warn] {
                        g.push(Case {
                            apps: vec![App { chain: ch.clone(), fail }, App { chain: vec![], fail: false }],
                            logger_level: ll,
                            level,
                        });
                    }
                }
            }
        }
    }
    groups.push(("real ThresholdFilter: 6 thresholds x 5 levels, alone / before and after scripted filters / two thresholds".into(), g));
    // (3) several appenders: isolation
    let multi_len = tier.pick(3, 4);
    let per: Vec<App> = chains(&anr, multi_len)
        .into_iter()
        .flat_map(|c| [App { chain: c.clone(), fail: false }, App { chain: c, fail: true }])
        .collect();
    let mut g = vec![];
    for a in &per {
        for b in &per {
            for c in &per {
                g.push(Case { apps: vec![a.clone(), b.clone(), c.clone()], logger_level: LevelFilter::Info, level: Level::Info });
            }
        }
    }
    groups.push((format!("3 appenders (2 on the logger + 1 inherited), all chains up to length {} x failing/healthy each", multi_len), g));
    let per1: Vec<App> = chains(&anr, tier.pick(2, 2))
        .into_iter()
        .flat_map(|c| [App { chain: c.clone(), fail: false }, App { chain: c, fail: true }])
        .collect();
    let mut g = vec![];
    for a in &per1 {
        for b in &per1 {
            for c in &per1 {
                for d in &per1 {
                    g.push(Case { apps: vec![a.clone(), b.clone(), c.clone(), d.clone()], logger_level: LevelFilter::Trace, level: Level::Debug });
                }
            }
        }
    }
    groups.push(("4 appenders (3 on the logger + 1 inherited), short chains x failing/healthy each".into(), g));
    // (4) logger threshold rejects: nothing may be consulted
    let mut g = vec![];
    for ch in chains(&anr, 2) {
        for level in LEVELS {
            for ll in FILTERS {
                g.push(Case { apps: vec![App { chain: ch.clone(), fail: true }, App { chain: ch.clone(), fail: false }], logger_level: ll, level });
            }
        }
    }
    groups.push(("logger threshold x record level: no consultation when the logger does not admit".into(), g));
    groups
}

pub fn run(ctx: &Ctx) -> Report {
    let mut rep = Report::new("model_checking");
    rep.set(
        "rule",
        "E-ENUM: every case of each listed group, its chains handed to the appender builder in each of five ways (filter()/filters() mixes), through Logger::new_with_err_handler + Log::log (two records per case); \
         scripted filters log every consultation, appenders log deliveries and fail on demand. Non-trivial = case with at least \
         one Reject or Accept before the end of a chain, or a failing appender next to a healthy one (distinct by construction)",
    );
    let mut notes = vec![];
    for (desc, g) in cases(ctx.tier) {
        let n = g.len() as u64;
        let bad: Vec<(usize, (String, String))> = g
            .par_iter()
            .enumerate()
            .filter_map(|(i, c)| check(c).map(|m| (i, m)))
            .collect();
        let nt = g
            .iter()
            .filter(|c| {
                c.apps.iter().any(|a| {
                    a.chain.iter().rev().skip(1).any(|f| matches!(f, F::A | F::R)) || matches!(a.chain.last(), Some(F::R) | Some(F::T(_)))
                }) || (c.apps.iter().any(|a| a.fail) && c.apps.iter().any(|a| !a.fail))
            })
            .count() as u64;
        rep.add("evaluations", n);
        rep.add("distinct_nontrivial", nt);
        notes.push(format!("{}: {} cases", desc, n));
        if let Some(c) = g.get((ctx.seed as usize + g.len() / 2) % g.len().max(1)) {
            rep.sample(case_json(c));
        }
        for (i, (sig, detail)) in bad {
            rep.violation(sig, detail, case_json(&g[i]));
        }
    }
    rep.set("groups", json!(notes));
    rep.assume("filters are stateless (scripted responses); chains longer than the bound are not covered");
    rep
}

pub fn replay(case: &Value) -> Result<(), String> {
    let c = case_from_json(case).ok_or("bad case")?;
    match check(&c) {
        None => Ok(()),
        Some((s, d)) => Err(format!("{}: {}", s, d)),
    }
}
