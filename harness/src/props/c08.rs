//! C08 — a failed or interrupted rotation loses no acknowledged data and is recoverable.
//! E-FAULT on the real RollingFileAppender + CompoundPolicy + FixedWindowRoller: every counted
//! file-system call of every rotation of a history is (a) a crash point (image taken immediately
//! before the call) and (b) a failing step (errno in {EIO, ENOSPC, EACCES}); every continuation of
//! bounded depth follows, on the same appender and on a restarted one.

use super::rolling::*;
use crate::engine::{
    catch_panic,
    fsfault::{self, call_str, Call, Plan},
    panic_site,
    sandbox::{decode_by_ext, files, materialise, show_bytes, snapshot, Sandbox, Snapshot},
    Ctx, Report, Tier,
};
use log::{Level, Record};
use log4rs::append::Append;
use rayon::prelude::*;
use serde_json::{json, Value};
use std::sync::{atomic::AtomicBool, Arc, Mutex};

#[derive(Clone, Debug)]
pub struct Rec8 {
    pub bytes: Vec<u8>,
    /// append returned Ok
    pub acked: bool,
}

#[derive(Clone, Debug, PartialEq)]
pub struct Matched {
    /// index of the first record retained
    pub start: usize,
    /// records [start, first_file_end) live (at least partly) in the oldest kept file
    pub first_file_end: usize,
    pub first_file: Option<String>,
    /// the archive names of the window that exist (whatever they hold)
    pub archives_present: Vec<String>,
}

/// The stream oracle on a directory image.
/// `recs`: every record ever submitted, in order.  Managed files oldest->newest (undecodable compressed
/// files and files that are a prefix of the next newer file are partial artefacts / duplicates and are
/// skipped) must read as a gap-free run of records r_s..r_n; records that are not acknowledged (append
/// did not return Ok, or legitimately discarded by a truncate-mode restart) may be present whole,
/// partially (a prefix) or not at all.  Returns the smallest such s.
pub fn stream_match(w: &World, snap: &Snapshot, recs: &[Rec8]) -> Result<Matched, (String, String)> {
    let fl = files(snap);
    let mut names: Vec<String> = vec![];
    if let RollerK::Fixed { base, count, .. } = &w.roller {
        for i in (*base..*base + *count).rev() {
            names.push(w.archive_rel(i));
        }
    }
    names.push(w.active_rel().to_string());
    let mut contents: Vec<(String, Vec<u8>)> = vec![];
    let mut artefacts = vec![];
    for n in &names {
        if let Some(raw) = fl.get(n) {
            match decode_by_ext(n, raw) {
                Ok(d) => contents.push((n.clone(), d)),
                Err(_) => artefacts.push(n.clone()),
            }
        }
    }
    // collapse duplicates: a file that is a prefix of the next newer file carries no data of its own
    let mut kept: Vec<(String, Vec<u8>)> = vec![];
    for i in 0..contents.len() {
        let dup = i + 1 < contents.len() && contents[i + 1].1.starts_with(&contents[i].1);
        if !dup && !contents[i].1.is_empty() {
            kept.push(contents[i].clone());
        }
    }
    let b: Vec<u8> = kept.iter().flat_map(|(_, c)| c.clone()).collect();
    /// returns the consumed length per record if b matches recs[i..]
    fn matches(b: &[u8], recs: &[Rec8], i: usize, used: &mut Vec<usize>) -> bool {
        if i == recs.len() {
            return b.is_empty();
        }
        let r = &recs[i];
        if r.acked {
            if b.starts_with(&r.bytes) {
                used.push(r.bytes.len());
                if matches(&b[r.bytes.len()..], recs, i + 1, used) {
                    return true;
                }
                used.pop();
            }
            false
        } else {
            for l in (0..=r.bytes.len()).rev() {
                if b.starts_with(&r.bytes[..l]) {
                    used.push(l);
                    if matches(&b[l..], recs, i + 1, used) {
                        return true;
                    }
                    used.pop();
                }
            }
            false
        }
    }
    for s in 0..=recs.len() {
        // a retained run starts with a record that is really there
        if s < recs.len() && recs[s].bytes.is_empty() {
            continue;
        }
        let mut used = vec![];
        if matches(&b, recs, s, &mut used) {
            let first_len = kept.first().map_or(0, |k| k.1.len());
            let mut acc = 0;
            let mut e = s;
            while e < recs.len() && acc < first_len {
                acc += used[e - s];
                e += 1;
            }
            let archives_present: Vec<String> = names.iter().filter(|n| *n != w.active_rel() && fl.contains_key(*n)).cloned().collect();
            return Ok(Matched { start: s, first_file_end: e, first_file: kept.first().map(|k| k.0.clone()), archives_present });
        }
    }
    let listing: Vec<String> = fl.iter().map(|(k, v)| format!("{}={:?}", k, show_bytes(&decode_by_ext(k, v).unwrap_or_else(|_| b"<undecodable>".to_vec())))).collect();
    let stream: Vec<u8> = recs.iter().filter(|r| r.acked).flat_map(|r| r.bytes.clone()).collect();
    Err((
        "stream-has-gap-or-corruption".into(),
        format!("directory [{}] (artefacts skipped: {:?}): managed files oldest->newest do not read as a gap-free suffix of the acknowledged stream {:?}", listing.join(", "), artefacts, show_bytes(&stream)),
    ))
}

/// Between two consecutive observations only a whole oldest file sitting at the last window slot may
/// vanish (the retention window); with the delete roller / count 0 the rolled file itself is dropped.
pub fn loss_rule(w: &World, prev: &Matched, new: &Matched, recs: &[Rec8], snap: &Snapshot) -> Result<(), (String, String)> {
    let last_slot = match &w.roller {
        RollerK::Fixed { base, count, .. } if *count > 0 => Some(w.archive_rel(base + count - 1)),
        _ => None,
    };
    if last_slot.is_none() {
        return Ok(());
    }
    // the archive at the last slot is only overwritten by the shift of the slot below it (or, for a window of
    // one, by the rolled file itself): with a hole directly below it, it stays
    let pushed_out = match &w.roller {
        RollerK::Fixed { base, count, .. } if *count >= 2 => prev.archives_present.contains(&w.archive_rel(base + count - 2)),
        RollerK::Fixed { .. } => true,
        _ => false,
    };
    let allowed_from = if pushed_out && prev.first_file.is_some() && prev.first_file == last_slot { prev.first_file_end } else { prev.start };
    let lost: Vec<usize> = (prev.start..new.start.min(recs.len())).filter(|i| *i >= allowed_from && recs[*i].acked && !recs[*i].bytes.is_empty()).collect();
    if lost.is_empty() {
        return Ok(());
    }
    let fl = files(snap);
    let listing: Vec<String> = fl.iter().map(|(k, v)| format!("{}={:?}", k, show_bytes(&decode_by_ext(k, v).unwrap_or_else(|_| b"<undecodable>".to_vec())))).collect();
    Err((
        "acknowledged-data-lost".into(),
        format!(
            "acknowledged records {:?} were on disk before this step and are gone now although they were not in a file due for eviction; directory now [{}]",
            lost.iter().map(|i| String::from_utf8_lossy(&recs[*i].bytes).into_owned()).collect::<Vec<_>>(),
            listing.join(", ")
        ),
    ))
}

/// history entry meaning "drop the appender and build a new one on the same directory"
pub const RESTART: u32 = u32::MAX;

#[derive(Clone, Debug)]
pub struct Scenario {
    pub world: World,
    /// record sizes of the history; the op at `target` triggers the rotation under test
    pub history: Vec<u32>,
    pub target: usize,
    /// for scripted triggers: indices of history ops before which the trigger is armed
    pub arm_before: Vec<usize>,
}

impl Scenario {
    fn describe(&self) -> String {
        format!("{} | history {:?} target op #{}", self.world.describe(), self.history, self.target)
    }
}

struct Live {
    sb: Sandbox,
    app: Option<log4rs::append::rolling_file::RollingFileAppender>,
    consults: Arc<Mutex<Vec<Consult>>>,
    armed: Arc<AtomicBool>,
    recs: Vec<Rec8>,
    /// model state of the fault-free run (to know what a completed run would retain)
    model: MState,
    /// what the previous observation retained
    prev: Option<Matched>,
}

fn rec_bytes(label: u32, size: u32) -> Vec<u8> {
    payload(label, size, false)
}

fn must_from(w: &World, st: &MState) -> usize {
    // first label retained by the fault-free model (labels are op indices; PRE counts as 0 data)
    let mut labels: Vec<u32> = st.archives.values().flatten().chain(st.active.iter().flatten()).map(|r| r.1).filter(|l| *l != PRE).collect();
    labels.sort();
    let _ = w;
    labels.first().map(|l| *l as usize).unwrap_or(st.nops as usize)
}

impl Live {
    fn new(w: &World) -> Result<Live, String> {
        let sb = Sandbox::new();
        let consults = Arc::new(Mutex::new(vec![]));
        let armed = Arc::new(AtomicBool::new(false));
        let app = w.build_appender(&sb, &consults, &armed)?;
        Ok(Live { sb, app: Some(app), consults, armed, recs: vec![], model: w.model_init(), prev: None })
    }
    /// appends one record; returns Ok(acked) or the panic message
    fn append(&mut self, w: &World, size: u32, arm: bool) -> Result<bool, String> {
        if arm {
            self.armed.store(true, std::sync::atomic::Ordering::SeqCst);
            self.model = w.model_step(&self.model, &Op::Arm);
            self.recs.push(Rec8 { bytes: vec![], acked: true }); // keeps labels == op indices
        }
        let label = self.model.nops;
        let bytes = rec_bytes(label, size);
        let text = String::from_utf8(bytes.clone()).unwrap();
        let app = self.app.as_ref().unwrap();
        let r = catch_panic(|| app.append(&Record::builder().level(Level::Info).args(format_args!("{}", text)).build()));
        self.model = w.model_step(&self.model, &Op::Append(size));
        match r {
            Err(p) => {
                self.recs.push(Rec8 { bytes, acked: false });
                Err(p)
            }
            Ok(res) => {
                self.recs.push(Rec8 { bytes, acked: res.is_ok() });
                Ok(res.is_ok())
            }
        }
    }
    fn restart(&mut self, w: &World) -> Result<(), String> {
        self.app = None;
        if !w.append {
            // truncate mode: the active file is discarded at open, by design: its records become optional
            if let Ok(active) = std::fs::read(self.sb.path(w.active_rel())) {
                for r in self.recs.iter_mut() {
                    if !r.bytes.is_empty() && active.windows(r.bytes.len()).any(|x| x == &r.bytes[..]) {
                        r.acked = false;
                    }
                }
            }
        }
        let app = w.build_appender(&self.sb, &self.consults, &self.armed)?;
        self.app = Some(app);
        self.model = w.model_step(&self.model, &Op::Restart);
        self.recs.push(Rec8 { bytes: vec![], acked: true });
        Ok(())
    }
    fn check(&mut self, w: &World) -> Result<(), (String, String)> {
        let snap = snapshot(&self.sb.dir);
        let m = stream_match(w, &snap, &self.recs)?;
        if let Some(prev) = &self.prev {
            loss_rule(w, prev, &m, &self.recs, &snap)?;
        }
        self.prev = Some(m);
        Ok(())
    }
}

/// runs the history up to (excluding) the target op, fault-free
fn prefix(sc: &Scenario) -> Result<Live, (String, String)> {
    let mut live = Live::new(&sc.world).map_err(|e| ("build-failed".to_string(), e))?;
    for i in 0..sc.target {
        if sc.history[i] == RESTART {
            live.restart(&sc.world).map_err(|e| ("restart-failed".to_string(), e))?;
            continue;
        }
        match live.append(&sc.world, sc.history[i], sc.arm_before.contains(&i)) {
            Ok(true) => {}
            Ok(false) => return Err(("fault-free-append-failed".into(), format!("history op {} returned Err without any fault", i))),
            Err(p) => return Err((format!("panic:{}", panic_site(&p)), p)),
        }
    }
    live.check(&sc.world).map_err(|(s, d)| (format!("fault-free:{}", s), d))?;
    Ok(live)
}

fn continuations(depth: usize) -> Vec<Vec<u32>> {
    let mut out: Vec<Vec<u32>> = vec![vec![]];
    let mut fr: Vec<Vec<u32>> = vec![vec![]];
    for _ in 0..depth {
        let mut nx = vec![];
        for c in &fr {
            for s in [10u32, 30] {
                let mut n = c.clone();
                n.push(s);
                nx.push(n);
            }
        }
        out.extend(nx.iter().cloned());
        fr = nx;
    }
    out
}

pub struct Found {
    pub sig: String,
    pub detail: String,
    pub case: Value,
}

fn run_continuation(sc: &Scenario, live: &mut Live, cont: &[u32], restart_first: bool, what: &str, case: &Value) -> Option<Found> {
    let w = &sc.world;
    let mk = |sig: String, detail: String, step: usize| Found { sig, detail: format!("[{}] {} then continuation {:?}{} (step {}): {}", sc.describe(), what, cont, if restart_first { " on a restarted appender" } else { " on the same appender" }, step, detail), case: json!({"base": case, "continuation": cont, "restart_first": restart_first}) };
    if restart_first {
        match catch_panic(|| live.restart(w)) {
            Err(p) => return Some(mk(format!("recovery:panic-restart:{}", panic_site(&p)), p, 0)),
            Ok(Err(e)) => return Some(mk("recovery:restart-failed".into(), format!("a restarted appender cannot be built on the directory: {}", e), 0)),
            Ok(Ok(())) => {}
        }
        if let Err((s, d)) = live.check(w) {
            return Some(mk(format!("after-restart:{}", s), d, 0));
        }
    }
    for (i, size) in cont.iter().enumerate() {
        match live.append(w, *size, false) {
            Err(p) => return Some(mk(format!("recovery:panic-append:{}", panic_site(&p)), p, i + 1)),
            Ok(false) => return Some(mk("recovery:append-still-failing".into(), "the obstruction is gone but append still returns Err".into(), i + 1)),
            Ok(true) => {}
        }
        if let Err((s, d)) = live.check(w) {
            return Some(mk(format!("continuation:{}", s), d, i + 1));
        }
    }
    // rotation resumed: with three or more further records of a size trigger world the active file cannot stay above the limit
    if let Trig::Size(limit) = &w.trig {
        if cont.len() >= 3 {
            let active = std::fs::metadata(live.sb.path(w.active_rel())).map(|m| m.len()).unwrap_or(0);
            if active > *limit {
                return Some(mk("recovery:rotation-did-not-resume".into(), format!("active file holds {} bytes (> limit {}) after the continuation", active, limit), cont.len()));
            }
        }
    }
    None
}

/// everything for one scenario; returns (counted calls, images checked, fault runs, findings)
pub fn run_scenario(sc: &Scenario, cont_depth: usize, errnos: &[i32], ctx: &Ctx) -> (usize, u64, u64, Vec<Found>, Vec<String>) {
    let w = &sc.world;
    let mut found = vec![];
    let conts = continuations(cont_depth);
    // ---- trace run with crash images
    let mut live = match prefix(sc) {
        Ok(l) => l,
        Err((s, d)) => return (0, 0, 0, vec![Found { sig: s, detail: format!("[{}] {}", sc.describe(), d), case: json!({"scenario": scenario_json(sc)}) }], vec![]),
    };
    let size = sc.history[sc.target];
    let pre_matched = live.prev.clone().expect("prefix state observed");
    fsfault::begin(&live.sb.dir.clone(), Plan { fail: vec![], snapshots: true, kinds: vec![], short: vec![] });
    fsfault::arm();
    let r = live.append(w, size, sc.arm_before.contains(&sc.target));
    fsfault::disarm();
    let (calls, images) = fsfault::end().unwrap_or_default();
    let trace: Vec<String> = calls.iter().map(call_str).collect();
    if !matches!(r, Ok(true)) {
        found.push(Found { sig: "fault-free-append-failed".into(), detail: format!("[{}] target op failed without fault: {:?}", sc.describe(), r), case: json!({"scenario": scenario_json(sc)}) });
        return (calls.len(), 0, 0, found, trace);
    }
    let recs_after = live.recs.clone();
    let model_after = live.model.clone();
    drop(live);
    let mut n_images = 0u64;
    let mut n_faults = 0u64;
    let _ = &mut n_faults;
    // ---- crash images: process death immediately before call k (k = N is the completed state)
    for (k, img) in images.iter().enumerate() {
        if ctx.over_cap() {
            break;
        }
        n_images += 1;
        let mut recs = recs_after.clone();
        // the record in flight was not acknowledged when the process died
        if let Some(last) = recs.last_mut() {
            last.acked = false;
        }
        let case = json!({"scenario": scenario_json(sc), "crash_before_call": k, "call": call_str(&calls[k])});
        let what = format!("process death immediately before {}", call_str(&calls[k]));
        let verdict = stream_match(w, img, &recs).and_then(|m| loss_rule(w, &pre_matched, &m, &recs, img).map(|_| m));
        let img_matched = match verdict {
            Ok(m) => m,
            Err((s, d)) => {
                found.push(Found { sig: format!("crash-image:{}", s), detail: format!("[{}] {}: {}", sc.describe(), what, d), case: case.clone() });
                continue;
            }
        };
        for cont in &conts {
            let sb = Sandbox::new();
            materialise(img, &sb.dir);
            let consults = Arc::new(Mutex::new(vec![]));
            let armed = Arc::new(AtomicBool::new(false));
            let mut live = Live { sb, app: None, consults, armed, recs: recs.clone(), model: model_after.clone(), prev: Some(img_matched.clone()) };
            if let Some(f) = run_continuation(sc, &mut live, cont, true, &what, &case) {
                found.push(f);
                break;
            }
        }
    }
    // ---- faults: call k fails atomically (deviation bound 1), then pairs (k1 < k2, bound 2) with a reduced continuation set
    let mut one_fault = |fails: &[(usize, i32)], cont: &[u32], restart_first: bool, found: &mut Vec<Found>| -> Option<Vec<Call>> {
        let what = fails.iter().map(|(k, e)| format!("call #{} fails with errno {}", k, e)).collect::<Vec<_>>().join(" and ");
        let case = json!({"scenario": scenario_json(sc), "fails": fails});
        let mut live = match prefix(sc) {
            Ok(l) => l,
            Err(_) => return None,
        };
        fsfault::begin(&live.sb.dir.clone(), Plan { fail: fails.to_vec(), snapshots: false, kinds: vec![], short: vec![] });
        fsfault::arm();
        let r = live.append(w, size, sc.arm_before.contains(&sc.target));
        fsfault::disarm();
        let (calls2, _) = fsfault::end().unwrap_or_default();
        let what = format!("{} [{}]", what, calls2.iter().filter(|c| c.failed.is_some()).map(call_str).collect::<Vec<_>>().join("; "));
        let k0 = fails[0].0;
        if calls2.len() <= k0 || calls2[k0].op != calls[k0].op {
            found.push(Found { sig: "MACHINERY".into(), detail: format!("call sequence not reproducible: {:?} vs {:?}", calls2.iter().map(call_str).collect::<Vec<_>>(), trace), case });
            return None;
        }
        if let Err(p) = r {
            found.push(Found { sig: format!("fault:panic:{}", panic_site(&p)), detail: format!("[{}] {}: append panicked: {}", sc.describe(), what, p), case });
            return None;
        }
        if let Err((s, d)) = live.check(w) {
            found.push(Found { sig: format!("fault:{}", s), detail: format!("[{}] {} (append returned {:?}): {}", sc.describe(), what, r, d), case });
            return None;
        }
        if let Some(f) = run_continuation(sc, &mut live, cont, restart_first, &what, &case) {
            found.push(f);
            return None;
        }
        Some(calls2)
    };
    let short_conts: Vec<Vec<u32>> = vec![vec![], vec![10], vec![10, 10, 10]];
    'outer: for k in 0..calls.len() {
        for &errno in errnos {
            if ctx.over_cap() {
                break 'outer;
            }
            let mut after_first: Option<Vec<Call>> = None;
            let mut ok = true;
            'single: for restart_first in [false, true] {
                for cont in &conts {
                    n_faults += 1;
                    match one_fault(&[(k, errno)], cont, restart_first, &mut found) {
                        Some(c2) => after_first = Some(c2),
                        None => {
                            ok = false;
                            break 'single;
                        }
                    }
                }
            }
            if !ok {
                continue;
            }
            if let Some(c2) = after_first {
                'pairs: for k2 in (k + 1)..c2.len() {
                    for restart_first in [false, true] {
                        for cont in &short_conts {
                            n_faults += 1;
                            if one_fault(&[(k, errno), (k2, errno)], cont, restart_first, &mut found).is_none() {
                                continue 'pairs;
                            }
                        }
                    }
                }
            }
        }
    }
    // ---- obstacles (no interposition): a non-empty directory at a vacant archive name makes the step onto it fail
    if let RollerK::Fixed { base, count, .. } = &w.roller {
        let _ = count;
        for idx in (*base + *count - 1)..(*base + *count) {
            for restart_first in [false, true] {
                for cont in &short_conts {
                    let mut live = match prefix(sc) {
                        Ok(l) => l,
                        Err(_) => continue,
                    };
                    let obst = live.sb.path(&w.archive_rel(idx));
                    if obst.exists() {
                        continue; // only vacant names: the obstacle must not destroy data itself
                    }
                    n_faults += 1;
                    std::fs::create_dir_all(obst.join("x")).unwrap();
                    let r = live.append(w, size, sc.arm_before.contains(&sc.target));
                    let _ = std::fs::remove_dir_all(&obst);
                    let case = json!({"scenario": scenario_json(sc), "obstacle_at_archive": idx});
                    let what = format!("a non-empty directory sits at {} during the target append (append returned {:?}), then it is removed", w.archive_rel(idx), r);
                    if let Err(p) = r {
                        found.push(Found { sig: format!("fault:panic:{}", panic_site(&p)), detail: format!("[{}] {}: {}", sc.describe(), what, p), case });
                        continue;
                    }
                    if let Err((s, d)) = live.check(w) {
                        found.push(Found { sig: format!("fault:{}", s), detail: format!("[{}] {}: {}", sc.describe(), what, d), case });
                        continue;
                    }
                    if let Some(f) = run_continuation(sc, &mut live, cont, restart_first, &what, &case) {
                        found.push(f);
                    }
                }
            }
        }
    }
    (calls.len(), n_images, n_faults, found, trace)
}


/// worker: a rotation fails (non-empty directory at the archive name) while the process's standard output is
/// not writable (/dev/full, then a pipe nobody reads).  The failing append must still *return* its error.
/// Results go to stderr as JSON lines (stdout is the broken stream).
pub fn child_stdout() -> i32 {
    use log4rs::append::rolling_file::{
        policy::compound::{roll::fixed_window::FixedWindowRoller, trigger::size::SizeTrigger, CompoundPolicy},
        RollingFileAppender,
    };
    use std::os::unix::io::AsRawFd;
    let mut n = 0u64;
    for mode in ["dev-full", "broken-pipe"] {
        // the step that fails: the final move/compress (window of 1, directory at slot 0) or an archive shift
        // (window of 2, an archive at slot 0 and a directory at slot 1)
        for (ext, count) in [("", 1u32), (".gz", 1), ("", 2), (".gz", 2)] {
            n += 1;
            let sb = Sandbox::new();
            std::fs::create_dir_all(sb.path(&format!("arch/app.{}.log{}", count - 1, ext)).join("occupied")).unwrap();
            if count == 2 {
                std::fs::write(sb.path(&format!("arch/app.0.log{}", ext)), b"older").unwrap();
            }
            let roller = FixedWindowRoller::builder().build(&format!("{}/arch/app.{{}}.log{}", sb.dir.display(), ext), count).unwrap();
            let app = RollingFileAppender::builder()
                .encoder(Box::new(log4rs::encode::pattern::PatternEncoder::new("{m}")))
                .build(sb.path("app.log"), Box::new(CompoundPolicy::new(Box::new(SizeTrigger::new(5)), Box::new(roller))))
                .unwrap();
            // break fd 1
            unsafe {
                if mode == "dev-full" {
                    let f = std::fs::OpenOptions::new().write(true).open("/dev/full").unwrap();
                    libc::dup2(f.as_raw_fd(), 1);
                } else {
                    let mut fds = [0i32; 2];
                    libc::pipe(fds.as_mut_ptr());
                    libc::close(fds[0]);
                    libc::dup2(fds[1], 1);
                    libc::close(fds[1]);
                }
            }
            let r = catch_panic(|| app.append(&Record::builder().level(log::Level::Info).args(format_args!("0123456789")).build()));
            let active = std::fs::read(sb.path("app.log")).unwrap_or_default();
            let line = match r {
                Err(ref p) => json!({"kind": "violation", "sig": format!("stdout-unwritable:panic:{}", panic_site(p)), "detail": format!("standard output {} and a failing rotation (archive {}): append panicked instead of returning the error: {}", mode, if ext.is_empty() { "plain" } else { "gzip" }, p), "case": {"stdout": mode, "ext": ext, "count": count}}),
                Ok(Ok(())) => json!({"kind": "violation", "sig": "stdout-unwritable:no-error-reported", "detail": format!("standard output {}: the failing rotation was not reported", mode), "case": {"stdout": mode, "ext": ext}}),
                Ok(Err(_)) if active != b"0123456789" => json!({"kind": "violation", "sig": "stdout-unwritable:acknowledged-data-lost", "detail": format!("active file holds {:?}", String::from_utf8_lossy(&active)), "case": {"stdout": mode, "ext": ext}}),
                Ok(Err(_)) => json!({"kind": "ok"}),
            };
            eprintln!("{}", line);
        }
    }
    eprintln!("{}", json!({"kind": "stat", "runs": n}));
    0
}

pub fn scenario_json(sc: &Scenario) -> Value {
    json!({"world": world_json(&sc.world), "history": sc.history, "target": sc.target, "arm_before": sc.arm_before})
}

pub fn scenario_from_json(v: &Value) -> Option<Scenario> {
    Some(Scenario {
        world: world_from_json(&v["world"])?,
        history: v["history"].as_array()?.iter().filter_map(|x| x.as_u64().map(|n| n as u32)).collect(),
        target: v["target"].as_u64()? as usize,
        arm_before: v["arm_before"].as_array()?.iter().filter_map(|x| x.as_u64().map(|n| n as usize)).collect(),
    })
}

pub fn scenarios(tier: Tier) -> Vec<Scenario> {
    let mut v = vec![];
    for append in [true, false] {
        for count in [1u32, 2, 3] {
            for ext in ["", ".gz"] {
                if tier == Tier::Quick && ext == ".gz" && count == 3 {
                    continue;
                }
                // size trigger (post-processing): limit 25, 10-byte records: every third record rotates
                let w = World { append, trig: Trig::Size(25), roller: RollerK::Fixed { base: 0, count, ext }, pre: None, sizes: vec![], multibyte: false, restart: false };
                let history = vec![10u32; 3 * (count as usize + 2)];
                for t in (2..history.len()).step_by(3) {
                    v.push(Scenario { world: w.clone(), history: history.clone(), target: t, arm_before: vec![] });
                }
                // scripted pre-processing trigger: rotation happens before the record is written
                let w = World { append, trig: Trig::ScriptPre, roller: RollerK::Fixed { base: 0, count, ext }, pre: None, sizes: vec![], multibyte: false, restart: false };
                let history = vec![10u32; 2 * (count as usize + 2)];
                let arms: Vec<usize> = (2..history.len()).step_by(2).collect();
                for t in arms.clone() {
                    if tier == Tier::Quick && ext == ".gz" && t != *arms.last().unwrap() {
                        continue;
                    }
                    v.push(Scenario { world: w.clone(), history: history.clone(), target: t, arm_before: arms.clone() });
                }
            }
        }
    }
    // the real on-start-up trigger (pre-processing): the first record after a restart rotates what the previous lifetime left
    for append in [true, false] {
        for (count, ext) in [(1u32, ""), (2, ""), (2, ".gz")] {
            let w = World { append, trig: Trig::OnStartup(1), roller: RollerK::Fixed { base: 0, count, ext }, pre: None, sizes: vec![], multibyte: false, restart: true };
            v.push(Scenario { world: w.clone(), history: vec![10, 10, RESTART, 10, 10, RESTART, 10, 10], target: 3, arm_before: vec![] });
            if append {
                v.push(Scenario { world: w, history: vec![10, 10, RESTART, 10, 10, RESTART, 10, 10], target: 6, arm_before: vec![] });
            }
        }
    }
    if tier == Tier::Thorough {
        for append in [true, false] {
            let w = World { append, trig: Trig::Size(25), roller: RollerK::Fixed { base: 1, count: 2, ext: ".zst" }, pre: None, sizes: vec![], multibyte: false, restart: false };
            let history = vec![10u32; 12];
            for t in (2..history.len()).step_by(3) {
                v.push(Scenario { world: w.clone(), history: history.clone(), target: t, arm_before: vec![] });
            }
            // a wider window, a window that does not start at 0, zstd at every window size, multi-byte records
            for (base, count, ext, multibyte) in [(0u32, 4u32, "", false), (3, 3, "", false), (1, 3, ".gz", false), (0, 1, ".zst", false), (0, 3, ".zst", false), (0, 2, "", true)] {
                let w = World { append, trig: Trig::Size(25), roller: RollerK::Fixed { base, count, ext }, pre: None, sizes: vec![], multibyte, restart: false };
                let history = vec![10u32; 3 * (count as usize + 2)];
                for t in (2..history.len()).step_by(3) {
                    v.push(Scenario { world: w.clone(), history: history.clone(), target: t, arm_before: vec![] });
                }
                let w = World { append, trig: Trig::ScriptPre, roller: RollerK::Fixed { base, count, ext }, pre: None, sizes: vec![], multibyte, restart: false };
                let history = vec![10u32; 2 * (count as usize + 2)];
                let arms: Vec<usize> = (2..history.len()).step_by(2).collect();
                for t in arms.clone() {
                    v.push(Scenario { world: w.clone(), history: history.clone(), target: t, arm_before: arms.clone() });
                }
            }
        }
    }
    // a 1500-byte record in flight (two write calls)
    for append in [true, false] {
        let w = World { append, trig: Trig::Size(1600), roller: RollerK::Fixed { base: 0, count: 2, ext: "" }, pre: None, sizes: vec![], multibyte: false, restart: false };
        v.push(Scenario { world: w, history: vec![1500, 1500, 1500, 1500], target: 3, arm_before: vec![] });
    }
    v
}

pub fn run(ctx: &Ctx) -> Report {
    let mut rep = Report::new("fault_enumeration");
    rep.set(
        "rule",
        "E-FAULT: per scenario (open mode x window 1..3 x plain/.gz x post-processing size trigger / pre-processing scripted trigger, history that fills the window, each rotation of the history as target) \
         one traced run enumerates the counted file-system calls of the target append; for every call k: the directory image immediately before k (process death) is checked and restarted with every \
         continuation up to the depth bound; and call k fails with each errno, followed by every continuation on the same and on a restarted appender. Oracle: managed files oldest->newest (undecodable \
         or duplicated artefacts skipped) read as a gap-free run of records reaching back at least as far as a fault-free run would retain; unacknowledged records may be absent, partial or present. \
         Non-trivial = (image or fault run) x continuation; distinct by (scenario, call index, errno, continuation)",
    );
    if let Err(e) = fsfault::self_test() {
        eprintln!("MACHINERY FAILURE: interposition self-test failed: {}", e);
        std::process::exit(2);
    }
    let depth = ctx.tier.pick(3, 5);
    let errnos: Vec<i32> = match ctx.tier {
        Tier::Quick => vec![libc::EIO, libc::ENOSPC, libc::EACCES],
        Tier::Thorough => vec![libc::EIO, libc::ENOSPC, libc::EACCES, libc::EMFILE, libc::EROFS],
    };
    let scs = scenarios(ctx.tier);
    let results: Vec<(usize, u64, u64, Vec<Found>, Vec<String>)> = scs.par_iter().map(|sc| run_scenario(sc, depth, &errnos, ctx)).collect();
    let mut traces = vec![];
    for (i, (ncalls, nimg, nfault, found, trace)) in results.into_iter().enumerate() {
        rep.add("evaluations", nimg * continuations(depth).len() as u64 + nfault);
        rep.add("crash_images", nimg);
        rep.add("fault_runs", nfault);
        rep.add("counted_calls", ncalls as u64);
        rep.add("distinct_nontrivial", nimg + nfault);
        if i % 9 == (ctx.seed as usize) % 9 {
            traces.push(json!({"scenario": scs[i].describe(), "counted_calls_of_target_append": trace}));
        }
        for f in found {
            if f.sig == "MACHINERY" {
                eprintln!("MACHINERY FAILURE: {}", f.detail);
                std::process::exit(2);
            }
            rep.violation(f.sig, f.detail, f.case);
        }
    }
    for t in traces.into_iter().take(5) {
        rep.sample(t);
    }
    // the failing append must return its error also when the process cannot write to its standard output
    {
        let o = crate::engine::proc::run_child(&ctx.exe, "c08stdout", &[], &[], std::time::Duration::from_secs(60));
        let lines: Vec<Value> = String::from_utf8_lossy(&o.stderr).lines().filter_map(|l| serde_json::from_str::<Value>(l).ok()).collect();
        let mut done = false;
        for v in &lines {
            if v["kind"] == "violation" {
                rep.violation(v["sig"].as_str().unwrap_or("?"), v["detail"].as_str().unwrap_or(""), json!({"kind": "stdout", "case": v["case"].clone()}));
            }
            if v["kind"] == "stat" {
                done = true;
                rep.add("evaluations", v["runs"].as_u64().unwrap_or(0));
                rep.set("unwritable_stdout_runs", v["runs"].as_u64().unwrap_or(0));
            }
        }
        if !done {
            rep.violation("stdout-unwritable:abort", format!("the worker died (status {:?}): {}", o.status, String::from_utf8_lossy(&o.stderr).lines().last().unwrap_or("")), json!({"kind": "stdout"}));
        }
    }
    rep.set("scenarios", scs.len() as u64);
    rep.set("continuation_depth", depth as u64);
    rep.set("errnos", json!(errnos));
    rep.set("exhaustive", !ctx.over_cap());
    rep.assume("crash model = process death (the page cache survives; log4rs never fsyncs); a failing call has no effect (atomic failure)");
    rep.assume("truncate-mode restart discards the active file by design: its records become optional for the loss oracle at that point");
    rep
}

pub fn replay(case: &Value) -> Result<(), String> {
    let base = if case.get("base").is_some() { &case["base"] } else { case };
    let sc = scenario_from_json(&base["scenario"]).ok_or("bad scenario")?;
    let ctx = Ctx { id: "C08".into(), tier: Tier::Quick, seed: 0, start: std::time::Instant::now(), cap: std::time::Duration::from_secs(600), verif_dir: "/nonexistent".into(), exe: std::env::current_exe().unwrap() };
    let depth = case["continuation"].as_array().map_or(2, |a| a.len().max(2));
    let errnos: Vec<i32> = match base["errno"].as_i64() {
        Some(e) => vec![e as i32],
        None => vec![libc::EIO],
    };
    let (_, _, _, found, _) = run_scenario(&sc, depth, &errnos, &ctx);
    match found.into_iter().next() {
        Some(f) => Err(format!("{}: {}", f.sig, f.detail)),
        None => Ok(()),
    }
}

#[allow(dead_code)]
fn _unused(_: &Call) {}
