//! C16 — the time trigger schedules the right boundary, fires once per boundary, never panics.
//! E-PROC (one child per time zone, because chrono caches the local zone) x E-ENUM (instant grids
//! through the guarded `TimeTrigger::verif_next_time`) + arrival sequences through the public
//! appender path under the driven clock.

use crate::engine::{catch_panic, hooks, proc::run_child, sandbox::Sandbox, Ctx, Report, Tier};
use chrono::{DateTime, Datelike, Duration, Local, NaiveDate, NaiveDateTime, Offset, TimeZone, Timelike};
use log::{Level, Record};
use log4rs::append::{
    rolling_file::{
        policy::compound::{
            roll::fixed_window::FixedWindowRoller,
            trigger::{
                time::{TimeTrigger, TimeTriggerConfig, TimeTriggerInterval},
                Trigger,
            },
            CompoundPolicy,
        },
        LogFile, RollingFileAppender,
    },
    Append,
};
use rayon::prelude::*;
use serde_json::{json, Value};
use std::{collections::BTreeMap, sync::Arc};

pub const ZONES: [&str; 11] = [
    "UTC",
    "Asia/Kolkata",
    "Asia/Kathmandu",
    "America/New_York",
    "Europe/Berlin",
    "Australia/Lord_Howe",
    "America/Havana",
    "America/Sao_Paulo",
    "Pacific/Apia",
    // clocks go back at 24:00: the repeated hour ends exactly on a day boundary
    "Africa/Cairo",
    "America/Santiago",
];

const UNITS: [&str; 7] = ["second", "minute", "hour", "day", "week", "month", "year"];
const NS: [i64; 9] = [1, 2, 3, 5, 7, 12, 24, 60, 100];

fn interval(unit: &str, n: i64) -> TimeTriggerInterval {
    match unit {
        "second" => TimeTriggerInterval::Second(n),
        "minute" => TimeTriggerInterval::Minute(n),
        "hour" => TimeTriggerInterval::Hour(n),
        "day" => TimeTriggerInterval::Day(n),
        "week" => TimeTriggerInterval::Week(n),
        "month" => TimeTriggerInterval::Month(n),
        _ => TimeTriggerInterval::Year(n),
    }
}

/// reference on naive local date-times, independent of chrono::Local
pub fn reference_next(now: NaiveDateTime, unit: &str, n: i64, modulate: bool) -> Option<NaiveDateTime> {
    let d = now.date();
    let midnight = d.and_hms_opt(0, 0, 0)?;
    let k = |index: i64| if modulate { n - index.rem_euclid(n) } else { n };
    Some(match unit {
        "second" => d.and_hms_opt(now.hour(), now.minute(), now.second())? + Duration::seconds(k(now.second() as i64)),
        "minute" => d.and_hms_opt(now.hour(), now.minute(), 0)? + Duration::minutes(k(now.minute() as i64)),
        "hour" => d.and_hms_opt(now.hour(), 0, 0)? + Duration::hours(k(now.hour() as i64)),
        "day" => midnight + Duration::days(k(d.ordinal0() as i64)),
        "week" => {
            let monday = midnight - Duration::days(d.weekday().num_days_from_monday() as i64);
            monday + Duration::weeks(k(d.iso_week().week0() as i64))
        }
        "month" => {
            let months = d.year() as i64 * 12 + d.month0() as i64 + k(d.month0() as i64);
            NaiveDate::from_ymd_opt(months.div_euclid(12) as i32, months.rem_euclid(12) as u32 + 1, 1)?.and_hms_opt(0, 0, 0)?
        }
        _ => NaiveDate::from_ymd_opt((d.year() as i64 + k(d.year() as i64)) as i32, 1, 1)?.and_hms_opt(0, 0, 0)?,
    })
}

fn offset_at(t: &DateTime<Local>) -> i32 {
    t.offset().fix().local_minus_utc()
}

/// UTC timestamps at which the local offset changes, found by scanning [from, to) in 15-minute steps
fn transitions(from_year: i32, to_year: i32) -> Vec<i64> {
    let start = chrono::Utc.with_ymd_and_hms(from_year, 1, 1, 0, 0, 0).unwrap().timestamp();
    let end = chrono::Utc.with_ymd_and_hms(to_year, 1, 1, 0, 0, 0).unwrap().timestamp();
    let mut out = vec![];
    let mut prev = offset_at(&Local.timestamp_opt(start, 0).unwrap());
    let mut t = start;
    while t < end {
        t += 900;
        let o = offset_at(&Local.timestamp_opt(t, 0).unwrap());
        if o != prev {
            // refine to the second
            let (mut lo, mut hi) = (t - 900, t);
            while hi - lo > 1 {
                let mid = (lo + hi) / 2;
                if offset_at(&Local.timestamp_opt(mid, 0).unwrap()) == prev {
                    lo = mid;
                } else {
                    hi = mid;
                }
            }
            out.push(hi);
            prev = o;
        }
    }
    out
}

#[derive(Default)]
struct Acc {
    evals: u64,
    oracle_applied: u64,
    found: BTreeMap<String, (String, Value, u64)>,
}

impl Acc {
    fn hit(&mut self, sig: String, detail: String, case: Value) {
        let e = self.found.entry(sig).or_insert((detail, case, 0));
        e.2 += 1;
    }
    fn merge(mut self, other: Acc) -> Acc {
        self.evals += other.evals;
        self.oracle_applied += other.oracle_applied;
        for (k, v) in other.found {
            let e = self.found.entry(k).or_insert((v.0, v.1, 0));
            e.2 += v.2;
        }
        self
    }
}

fn check_instant(ts: i64, trans: &[i64], zone: &str, acc: &mut Acc) {
    check_instant_ns(ts, 0, trans, zone, acc);
    // one instant in sixteen also with a sub-second part: the boundary must not inherit it
    if ts % 16 == 0 {
        check_instant_ns(ts, 851_000_000, trans, zone, acc);
    }
}

fn check_instant_ns(ts: i64, nanos: u32, trans: &[i64], zone: &str, acc: &mut Acc) {
    let now = match Local.timestamp_opt(ts, nanos) {
        chrono::LocalResult::Single(t) => t,
        _ => return,
    };
    for unit in UNITS {
        for n in NS {
            for modulate in [false, true] {
                acc.evals += 1;
                let case = || json!({"tz": zone, "now_utc": ts, "now_local": now.to_rfc3339(), "unit": unit, "n": n, "modulate": modulate});
                let r = catch_panic(|| TimeTrigger::verif_next_time(now, interval(unit, n), modulate));
                let next = match r {
                    Err(p) => {
                        let kind = if p.contains("mbiguous") {
                            "ambiguous-local-time"
                        } else if p.contains("No such local time") || p.contains("None") {
                            "nonexistent-local-time"
                        } else {
                            "other"
                        };
                        acc.hit(format!("panic:{}:{}", kind, unit), format!("TZ={} now={} {} x{} modulate={}: {}", zone, now.to_rfc3339(), unit, n, modulate, p), case());
                        continue;
                    }
                    Ok(t) => t,
                };
                if next <= now {
                    acc.hit(format!("not-strictly-after-now:{}", unit), format!("TZ={} now={} {} x{} modulate={}: next={} is not after now", zone, now.to_rfc3339(), unit, n, modulate, next.to_rfc3339()), case());
                    continue;
                }
                // The reference boundary itself: if its earliest occurrence after now is reached without any offset
                // change, that occurrence is the next rotation (the exemption is taken relative to the reference, not
                // to the implementation's answer — otherwise any answer beyond the next transition would be exempt).
                if let Some(want) = reference_next(now.naive_local(), unit, n, modulate) {
                    let cands: Vec<chrono::DateTime<Local>> = match Local.from_local_datetime(&want) {
                        chrono::LocalResult::Single(t) => vec![t],
                        chrono::LocalResult::Ambiguous(a, b) => vec![a, b],
                        chrono::LocalResult::None => vec![],
                    };
                    if let Some(e) = cands.into_iter().filter(|t| *t > now).min() {
                        let ets = e.timestamp();
                        let i = trans.partition_point(|t| *t <= ts);
                        let change_before = i < trans.len() && trans[i] <= ets;
                        let known = trans.is_empty() || ets < *trans.last().unwrap();
                        if !change_before && known && next != e {
                            acc.hit(
                                format!("skipped-boundary:{}", unit),
                                format!("TZ={} now={} {} x{} modulate={}: the boundary {} is reached without an offset change, but next={}", zone, now.to_rfc3339(), unit, n, modulate, e.to_rfc3339(), next.to_rfc3339()),
                                case(),
                            );
                            continue;
                        }
                    }
                }
                // The answer is the instant of an offset change itself (and nothing changes before it): then "in between"
                // is empty, and the wall-clock reading that instant really shows must be the boundary.  (chrono calls the
                // closed end of a repeated interval ambiguous; its earlier candidate is the change itself, where the clock
                // shows the *start* of the repeated interval.)
                {
                    let nts0 = next.timestamp();
                    let i0 = trans.partition_point(|t| *t <= ts);
                    if i0 < trans.len() && trans[i0] == nts0 {
                        if let (chrono::LocalResult::Single(shown), Some(want)) = (Local.timestamp_opt(nts0, 0), reference_next(now.naive_local(), unit, n, modulate)) {
                            // (a boundary that falls into a gap does not exist; moving it to the end of the gap is fine)
                            // (chrono also reports the first instant of a gap under the reading that was skipped)
                            let really_shows = |t: chrono::DateTime<Local>| matches!(Local.timestamp_opt(t.timestamp(), 0), chrono::LocalResult::Single(x) if x.naive_local() == want);
                            let exists = match Local.from_local_datetime(&want) {
                                chrono::LocalResult::None => false,
                                chrono::LocalResult::Single(t) => really_shows(t),
                                chrono::LocalResult::Ambiguous(a, b) => really_shows(a) || really_shows(b),
                            };
                            if exists && shown.naive_local() != want {
                                acc.hit(
                                    format!("off-boundary:at-the-offset-change:{}", unit),
                                    format!("TZ={} now={} {} x{} modulate={}: next={} is the instant of an offset change where the clock shows {}, the boundary is {}", zone, now.to_rfc3339(), unit, n, modulate, next.to_rfc3339(), shown.naive_local(), want),
                                    case(),
                                );
                                continue;
                            }
                        }
                    }
                }
                // boundary oracle only where the offset does not change between now and next
                let nts = next.timestamp();
                let i = trans.partition_point(|t| *t <= ts);
                let changes_between = i < trans.len() && trans[i] <= nts;
                let span_known = nts < *trans.last().unwrap_or(&i64::MAX) || trans.is_empty();
                if changes_between || (!span_known && !trans.is_empty()) {
                    continue;
                }
                acc.oracle_applied += 1;
                match reference_next(now.naive_local(), unit, n, modulate) {
                    Some(want) => {
                        if next.naive_local() != want {
                            let on_boundary = match unit {
                                "second" => next.nanosecond() == 0,
                                "minute" => next.second() == 0,
                                "hour" => next.minute() == 0 && next.second() == 0,
                                "day" | "week" => next.hour() == 0 && next.minute() == 0 && next.second() == 0,
                                "month" => next.day() == 1 && next.hour() == 0 && next.minute() == 0,
                                _ => next.ordinal() == 1 && next.hour() == 0,
                            };
                            let sig = if on_boundary { format!("wrong-boundary:{}:modulate={}", unit, modulate) } else { format!("off-boundary:{}", unit) };
                            acc.hit(sig, format!("TZ={} now={} {} x{} modulate={}: next={} (local {}), reference says local {}", zone, now.to_rfc3339(), unit, n, modulate, next.to_rfc3339(), next.naive_local(), want), case());
                        }
                    }
                    None => {}
                }
            }
        }
    }
}

fn instants(tier: Tier, trans: &[i64]) -> Vec<i64> {
    let utc = |y, m, d, h, mi, s| chrono::Utc.with_ymd_and_hms(y, m, d, h, mi, s).unwrap().timestamp();
    let mut v: Vec<i64> = vec![];
    let win = tier.pick(120i64, 7200i64);
    // every second around each offset transition of the scanned years
    for t in trans {
        for s in (t - win)..=(t + win) {
            v.push(s);
        }
        // the local day of the transition: every minute (quick) / every 20 seconds (thorough) for 36 hours
        let step = tier.pick(60, 20);
        let mut s = t - 18 * 3600;
        while s < t + 30 * 3600 {
            v.push(s);
            s += step;
        }
    }
    // calendar corners (UTC-based windows wide enough to contain the local boundary in every zone)
    for (y, m, d) in [(2024, 2, 29), (2024, 3, 1), (2023, 2, 28), (2023, 3, 1), (2023, 12, 31), (2024, 1, 1), (2024, 12, 31), (2020, 12, 31), (2021, 1, 3), (2026, 12, 28), (2027, 1, 1), (2011, 12, 30)] {
        let base = utc(y, m, d, 0, 0, 0);
        let step = tier.pick(300, 30);
        let mut s = base - 14 * 3600;
        while s < base + 38 * 3600 {
            v.push(s);
            s += step;
        }
        for s in (base - 14 * 3600..base + 14 * 3600).step_by(3600) {
            for ds in -2..=2 {
                v.push(s + ds);
            }
        }
    }
    // a regular grid over two full years
    let step = tier.pick(3 * 3600 + 7 * 60 + 1, 600 + 1);
    let mut s = utc(2023, 1, 1, 0, 0, 0);
    let end = utc(2025, 1, 1, 0, 0, 0);
    while s < end {
        v.push(s);
        s += step;
    }
    v.sort();
    v.dedup();
    v
}

/// shares the real trigger between the policy and the harness (which reads the scheduled instant)
#[derive(Debug)]
struct SharedTrigger(Arc<TimeTrigger>);
impl Trigger for SharedTrigger {
    fn trigger(&self, file: &LogFile) -> anyhow::Result<bool> {
        self.0.trigger(file)
    }
    fn is_pre_process(&self) -> bool {
        self.0.is_pre_process()
    }
}


/// multipliers and random-delay bounds near every numeric limit: no panic, next strictly after now
/// (no boundary oracle: beyond the supported calendar "never" is the only sensible schedule)
fn huge_values(zone: &str, acc: &mut Acc) {
    let utc = |y, m, d, h, mi, s| chrono::Utc.with_ymd_and_hms(y, m, d, h, mi, s).unwrap().timestamp();
    let nows = [utc(2024, 3, 5, 10, 15, 20), utc(2026, 10, 25, 0, 59, 30), utc(2024, 12, 31, 23, 59, 59)];
    let ns: [i64; 16] = [
        262_000, 300_000, 4_000_000, 14_000_000, 100_000_000, (1 << 31) - 1, 1 << 31, (1 << 32) - 1, 1 << 32, (1 << 32) + 1, 2_400_000_000,
        150_000_000_000, 9_000_000_000_000, i64::MAX / 1000, i64::MAX - 1, i64::MAX,
    ];
    for ts in nows {
        let now = match Local.timestamp_opt(ts, 0) {
            chrono::LocalResult::Single(t) => t,
            _ => continue,
        };
        for unit in UNITS {
            for n in ns {
                for modulate in [false, true] {
                    acc.evals += 1;
                    let case = json!({"tz": zone, "now_utc": ts, "unit": unit, "n": n, "modulate": modulate, "huge": true});
                    match catch_panic(|| TimeTrigger::verif_next_time(now, interval(unit, n), modulate)) {
                        Err(p) => acc.hit(format!("huge-multiplier:panic:{}", unit), format!("TZ={} now={} {} x{} modulate={}: {}", zone, now.to_rfc3339(), unit, n, modulate, p), case),
                        Ok(next) if next <= now => acc.hit(format!("huge-multiplier:not-strictly-after-now:{}", unit), format!("TZ={} now={} {} x{} modulate={}: next={}", zone, now.to_rfc3339(), unit, n, modulate, next.to_rfc3339()), case),
                        Ok(_) => {}
                    }
                }
            }
        }
        // random-delay bounds through the public constructor under the driven clock
        for delay in [1u64 << 32, 8_200_000_000_000, 9_300_000_000_000_000, i64::MAX as u64, (i64::MAX as u64) + 1, u64::MAX] {
            for (unit, n) in [("second", 5i64), ("year", 1)] {
                acc.evals += 1;
                let case = json!({"tz": zone, "now_utc": ts, "unit": unit, "n": n, "max_random_delay": delay, "huge": true});
                hooks::set_now(Some(now));
                let r = catch_panic(|| {
                    let cfg: TimeTriggerConfig = serde_yaml::from_str(&format!("interval: {} {}\nmax_random_delay: {}\n", n, unit, delay)).map_err(|e| e.to_string())?;
                    let t = TimeTrigger::new(cfg);
                    Ok::<_, String>(t.verif_next_roll_time())
                });
                match r {
                    Err(p) => acc.hit("huge-random-delay:panic".to_string(), format!("TZ={} now={} {} x{} max_random_delay={}: {}", zone, now.to_rfc3339(), unit, n, delay, p), case),
                    Ok(Err(_)) => {} // refused by the deserializer: an error, not a panic
                    Ok(Ok(e)) if e <= now => acc.hit("huge-random-delay:not-strictly-after-now".to_string(), format!("TZ={} now={} scheduled {}", zone, now.to_rfc3339(), e.to_rfc3339()), case),
                    Ok(Ok(_)) => {}
                }
            }
        }
    }
}

/// arrival sequences through the public appender path under the driven clock
fn sequences(zone: &str, tier: Tier, trans: &[i64], acc: &mut Acc) {
    let starts: Vec<i64> = {
        let utc = |y, m, d, h, mi, s| chrono::Utc.with_ymd_and_hms(y, m, d, h, mi, s).unwrap().timestamp();
        let mut v = vec![utc(2024, 3, 5, 10, 15, 20), utc(2024, 12, 31, 22, 59, 58)];
        if let Some(t) = trans.iter().find(|t| **t > utc(2024, 1, 1, 0, 0, 0)) {
            v.push(t - 3 * 3600 - 90);
        }
        // ten minutes before each of the next two offset changes: the schedule lies in the first pass of a
        // repeated interval, the arrival class "+1800 s" in the second one (lower wall-clock reading, later instant)
        for t in trans.iter().filter(|t| **t > utc(2024, 1, 1, 0, 0, 0)).take(2) {
            v.push(t - 600);
        }
        v
    };
    let depth = tier.pick(3usize, 4usize);
    for start in starts {
        for (unit, n, unit_secs) in [("second", 5i64, 5i64), ("minute", 1, 60), ("hour", 2, 7200), ("day", 1, 86400)] {
            for modulate in [false, true] {
                for delay in [0u64, 30] {
                    // every sequence of arrival classes relative to the scheduled instant E: -1 s, exactly E, +1 s, a whole unit late
                    let classes: [i64; 5] = [-1, 0, 1, unit_secs + 1, 1800];
                    let total = classes.len().pow(depth as u32);
                    for code in 0..total {
                        acc.evals += 1;
                        let case = json!({"tz": zone, "start_utc": start, "unit": unit, "n": n, "modulate": modulate, "max_random_delay": delay, "arrival_classes": (0..depth).map(|i| classes[(code / classes.len().pow(i as u32)) % classes.len()]).collect::<Vec<_>>()});
                        let r = catch_panic(|| one_sequence(start, unit, n, modulate, delay, &classes, code, depth));
                        match r {
                            Err(p) => {
                                let kind = if p.contains("mbiguous") { "ambiguous-local-time" } else if p.contains("No such local time") { "nonexistent-local-time" } else if p.contains("PoisonError") { "poisoned-after-earlier-panic" } else { "other" };
                                acc.hit(format!("sequence:panic:{}:{}", kind, unit), format!("TZ={} {}: {}", zone, case, p), case)
                            }
                            Ok(Err((sig, detail))) => acc.hit(format!("sequence:{}:{}", sig, unit), format!("TZ={} {}: {}", zone, case, detail), case),
                            Ok(Ok(())) => {}
                        }
                    }
                }
            }
        }
    }
}

#[allow(clippy::too_many_arguments)]
fn one_sequence(start: i64, unit: &str, n: i64, modulate: bool, delay: u64, classes: &[i64], code: usize, depth: usize) -> Result<(), (String, String)> {
    let sb = Sandbox::new();
    let t0 = Local.timestamp_opt(start, 0).unwrap();
    hooks::set_now(Some(t0));
    let cfg: TimeTriggerConfig = serde_yaml::from_str(&format!("interval: {} {}\nmodulate: {}\nmax_random_delay: {}\n", n, unit, modulate, delay)).map_err(|e| ("config".to_string(), e.to_string()))?;
    let trig = Arc::new(TimeTrigger::new(cfg));
    let roller = FixedWindowRoller::builder().build(&format!("{}/a.{{}}", sb.dir.display()), 8).unwrap();
    let app = RollingFileAppender::builder()
        .encoder(Box::new(log4rs::encode::pattern::PatternEncoder::new("{m}|")))
        .build(sb.path("app.log"), Box::new(CompoundPolicy::new(Box::new(SharedTrigger(trig.clone())), Box::new(roller))))
        .map_err(|e| ("build".to_string(), e.to_string()))?;
    let mut e = trig.verif_next_roll_time();
    let base = TimeTrigger::verif_next_time(t0, interval(unit, n), modulate);
    if e < base || e >= base + Duration::seconds(delay.max(1) as i64) {
        return Err(("random-delay-out-of-range".into(), format!("scheduled {} outside [{}, +{}s)", e, base, delay)));
    }
    let mut now = t0;
    let mut files_expected: Vec<Vec<String>> = vec![vec![]]; // newest last; last = active
    for step in 0..depth {
        let class = classes[(code / classes.len().pow(step as u32)) % classes.len()];
        let arrival = e + Duration::seconds(class);
        if arrival <= now {
            // time does not run backwards: arrive one second after the previous arrival instead
            now += Duration::seconds(1);
        } else {
            now = arrival;
        }
        hooks::set_now(Some(now));
        let msg = format!("r{}", step);
        app.append(&Record::builder().level(Level::Info).args(format_args!("{}", msg)).build()).map_err(|er| ("append-error".to_string(), er.to_string()))?;
        let should_fire = now >= e;
        let e_after = trig.verif_next_roll_time();
        if should_fire {
            files_expected.push(vec![]);
            if e_after <= now {
                return Err(("rescheduled-not-in-future".into(), format!("fired at {} and rescheduled to {}", now, e_after)));
            }
            e = e_after;
        } else if e_after != e {
            return Err(("schedule-changed-without-firing".into(), format!("arrival {} < E {} but the schedule moved to {}", now, e, e_after)));
        }
        files_expected.last_mut().unwrap().push(msg);
        // observe: archives a.0 (newest) .. and the active file
        let mut got: Vec<Vec<String>> = vec![];
        let n_arch = files_expected.len() - 1;
        for i in (0..n_arch).rev() {
            let s = std::fs::read_to_string(sb.path(&format!("a.{}", i))).unwrap_or_else(|_| "<missing>".into());
            got.push(s.split('|').filter(|x| !x.is_empty()).map(|x| x.to_string()).collect());
        }
        let s = std::fs::read_to_string(sb.path("app.log")).unwrap_or_else(|_| "<missing>".into());
        got.push(s.split('|').filter(|x| !x.is_empty()).map(|x| x.to_string()).collect());
        let extra = sb.path(&format!("a.{}", n_arch)).exists();
        if got != files_expected || extra {
            let sig = if should_fire { "did-not-fire-at-or-after-E-or-record-on-wrong-side" } else { "fired-before-E" };
            return Err((sig.into(), format!("arrival {} (E={}): files {:?}{}, expected {:?}", now, e, got, if extra { " plus an extra archive" } else { "" }, files_expected)));
        }
    }
    hooks::set_now(None);
    Ok(())
}

/// child: args = tier
pub fn child(args: &[String]) -> i32 {
    let tier = if args.first().map(|s| s.as_str()) == Some("thorough") { Tier::Thorough } else { Tier::Quick };
    let zone = std::env::var("TZ").unwrap_or_default();
    let trans = transitions(2010, 2031);
    let inst = instants(tier, &trans);
    let acc = inst
        .par_chunks(4096)
        .map(|chunk| {
            let mut a = Acc::default();
            for ts in chunk {
                check_instant(*ts, &trans, &zone, &mut a);
            }
            a
        })
        .reduce(Acc::default, |a, b| a.merge(b));
    let mut seq = Acc::default();
    sequences(&zone, tier, &trans, &mut seq);
    let seq_evals = seq.evals;
    huge_values(&zone, &mut seq);
    let acc = acc.merge(seq);
    for (sig, (detail, case, count)) in &acc.found {
        println!("{}", json!({"kind": "violation", "sig": sig, "detail": detail, "case": case, "count": count}));
    }
    println!("{}", json!({"kind": "stat", "tz": zone, "instants": inst.len(), "evaluations": acc.evals, "oracle_applied": acc.oracle_applied, "transitions_found": trans.len(), "sequence_runs": seq_evals}));
    0
}

pub fn run(ctx: &Ctx) -> Report {
    let mut rep = Report::new("model_checking");
    rep.set(
        "rule",
        "E-PROC x E-ENUM: one child per time zone (fixed offsets +5:30/+5:45, DST zones incl. a 30-minute DST, midnight transitions, a skipped day); per zone every second around every offset \
         transition 2010-2030, every minute of the transition days, calendar corners (leap day, year ends, ISO week 53) and a regular two-year grid, x 7 units x n in {1,2,3,5,7,12,24,60,100} x modulate; \
         always: no panic and next > now; where the offset does not change between now and next: next == the reference computed on naive local date-times. Plus every sequence of arrival classes \
         {E-1s, E, E+1s, E+unit+1s} to the depth bound through the real appender under the driven clock (fires on the first arrival >= E, record on the right side, reschedules into the future). Plus multipliers and random-delay bounds near every numeric limit (2^31, 2^32, chrono's range, i64::MAX, u64::MAX): no panic, next > now. \
         Non-trivial = evaluation where the boundary oracle applied",
    );
    let outs: Vec<_> = ZONES
        .par_iter()
        .map(|z| (z, run_child(&ctx.exe, "c16", &[ctx.tier.name().to_string()], &[("TZ".into(), z.to_string())], ctx.cap)))
        .collect();
    let mut per_zone = vec![];
    for (z, o) in outs {
        let lines = o.json_lines();
        let mut ok = false;
        for v in &lines {
            if v["kind"] == "stat" {
                ok = true;
                rep.add("evaluations", v["evaluations"].as_u64().unwrap_or(0));
                rep.add("distinct_nontrivial", v["oracle_applied"].as_u64().unwrap_or(0));
                rep.add("sequence_runs", v["sequence_runs"].as_u64().unwrap_or(0));
                per_zone.push(format!("{}: instants={} evaluations={} boundary-oracle-applied={} offset-transitions-2010-2030={}", z, v["instants"], v["evaluations"], v["oracle_applied"], v["transitions_found"]));
            }
            if v["kind"] == "violation" {
                rep.violation(v["sig"].as_str().unwrap_or("?"), format!("{} ({} cases in this zone)", v["detail"].as_str().unwrap_or(""), v["count"]), v["case"].clone());
            }
        }
        if !ok {
            if o.timed_out {
                rep.set("exhaustive", false);
                per_zone.push(format!("{}: stopped by the wall-clock cap", z));
            } else {
                eprintln!("MACHINERY FAILURE: zone child {} failed: {}", z, String::from_utf8_lossy(&o.stderr));
                std::process::exit(2);
            }
        }
    }
    rep.set("zones", json!(per_zone));
    rep.sample(json!({"tz": "Europe/Berlin", "now_local": "2024-10-27T02:30:00+02:00", "unit": "hour", "n": 1, "modulate": false}));
    rep.sample(json!({"tz": "Asia/Kathmandu", "now_local": "2024-02-29T23:59:59+05:45", "unit": "month", "n": 5, "modulate": true}));
    rep.assume("n >= 1 (the property's domain); the random delay is an environment answer in [0,max): the scheduled instant must lie in [next, next+max)");
    rep.assume("the boundary oracle is applied only where the zone's offset does not change between now and next, as the property states; elsewhere only 'no panic' and 'next > now' are required");
    rep
}

pub fn replay(case: &Value) -> Result<(), String> {
    let tz = case["tz"].as_str().ok_or("bad case")?;
    let exe = std::env::current_exe().map_err(|e| e.to_string())?;
    let o = run_child(&exe, "c16one", &[case.to_string()], &[("TZ".into(), tz.to_string())], std::time::Duration::from_secs(120));
    for v in o.json_lines() {
        if v["kind"] == "violation" {
            return Err(format!("{}: {}", v["sig"].as_str().unwrap_or(""), v["detail"].as_str().unwrap_or("")));
        }
        if v["kind"] == "stat" {
            return Ok(());
        }
    }
    Err(format!("replay child failed: {}", String::from_utf8_lossy(&o.stderr)))
}

/// child: one recorded case
pub fn child_one(args: &[String]) -> i32 {
    let case: Value = serde_json::from_str(&args[0]).unwrap_or(Value::Null);
    let zone = std::env::var("TZ").unwrap_or_default();
    let trans = transitions(2010, 2031);
    let mut acc = Acc::default();
    if let Some(ts) = case["now_utc"].as_i64() {
        check_instant(ts, &trans, &zone, &mut acc);
        // only the recorded unit/n/modulate matter
        let unit = case["unit"].as_str().unwrap_or("");
        acc.found.retain(|k, _| k.contains(unit));
    } else {
        if case["huge"] == true {
            huge_values(&zone, &mut acc);
        } else {
            sequences(&zone, Tier::Thorough, &trans, &mut acc);
        }
    }
    for (sig, (detail, case, count)) in &acc.found {
        println!("{}", json!({"kind": "violation", "sig": sig, "detail": detail, "case": case, "count": count}));
    }
    println!("{}", json!({"kind": "stat"}));
    0
}
