//! Harness-owned components plugged into the real logger: capturing appenders, scripted filters.

use log::Record;
use log4rs::{append::Append, filter::{Filter, Response}};
use std::sync::{
    atomic::{AtomicUsize, Ordering},
    Arc, Mutex,
};

/// Counts deliveries (cheap, used in the large routing sweeps).
#[derive(Debug)]
pub struct CountAppender(pub Arc<AtomicUsize>);

impl Append for CountAppender {
    fn append(&self, _record: &Record) -> anyhow::Result<()> {
        self.0.fetch_add(1, Ordering::Relaxed);
        Ok(())
    }
    fn flush(&self) {}
}

/// An event observed by a harness component, in global order.
#[derive(Clone, Debug, PartialEq, Eq)]
pub enum Event {
    Filter { appender: usize, index: usize },
    Deliver { appender: usize, msg: String },
    Error { tag: String },
}

pub type EventLog = Arc<Mutex<Vec<Event>>>;

#[derive(Debug)]
pub struct LogAppender {
    pub id: usize,
    pub fail: bool,
    pub log: EventLog,
}

thread_local! {
    /// when set, every failing [`LogAppender`] on this thread reports the same text ("disk full")
    pub static SAME_ERROR_TEXT: std::cell::Cell<bool> = const { std::cell::Cell::new(false) };
}

#[derive(Debug)]
pub struct TaggedError(pub String);
impl std::fmt::Display for TaggedError {
    fn fmt(&self, f: &mut std::fmt::Formatter<'_>) -> std::fmt::Result {
        write!(f, "{}", self.0)
    }
}
impl std::error::Error for TaggedError {}

impl Append for LogAppender {
    fn append(&self, record: &Record) -> anyhow::Result<()> {
        self.log.lock().unwrap().push(Event::Deliver {
            appender: self.id,
            msg: format!("{}", record.args()),
        });
        if self.fail {
            if SAME_ERROR_TEXT.with(|c| c.get()) {
                return Err(TaggedError("disk full".into()).into());
            }
            Err(TaggedError(format!("fail-{}", self.id)).into())
        } else {
            Ok(())
        }
    }
    fn flush(&self) {}
}

#[derive(Clone, Copy, Debug, PartialEq, Eq)]
pub enum Resp {
    Accept,
    Neutral,
    Reject,
}

#[derive(Debug)]
pub struct ScriptFilter {
    pub appender: usize,
    pub index: usize,
    pub resp: Resp,
    pub log: EventLog,
}

impl Filter for ScriptFilter {
    fn filter(&self, _record: &Record) -> Response {
        self.log.lock().unwrap().push(Event::Filter {
            appender: self.appender,
            index: self.index,
        });
        match self.resp {
            Resp::Accept => Response::Accept,
            Resp::Neutral => Response::Neutral,
            Resp::Reject => Response::Reject,
        }
    }
}

// ---------------------------------------------------------------------------------------------
// A harness appender kind for configuration *files*: `kind: capture`, `tag: <string>`.
// Registered through the public `Deserializers::insert`; every construction and every delivery is
// recorded in a process-wide registry.

#[derive(Debug, Default)]
pub struct Registry {
    /// tags in construction order (one entry per constructed appender object)
    pub built: Vec<String>,
    /// (tag, construction serial, message)
    pub delivered: Vec<(String, usize, String)>,
}

pub static REGISTRY: once_cell::sync::Lazy<Mutex<Registry>> = once_cell::sync::Lazy::new(|| Mutex::new(Registry::default()));

#[derive(Debug)]
pub struct CaptureAppender {
    pub tag: String,
    pub serial: usize,
}

impl Append for CaptureAppender {
    fn append(&self, record: &Record) -> anyhow::Result<()> {
        REGISTRY
            .lock()
            .unwrap()
            .delivered
            .push((self.tag.clone(), self.serial, format!("{}", record.args())));
        Ok(())
    }
    fn flush(&self) {}
}

#[derive(Debug, serde::Deserialize)]
#[serde(deny_unknown_fields)]
pub struct CaptureConfig {
    pub tag: String,
}

pub struct CaptureDeserializer;

impl log4rs::config::Deserialize for CaptureDeserializer {
    type Trait = dyn Append;
    type Config = CaptureConfig;
    fn deserialize(&self, config: CaptureConfig, _: &log4rs::config::Deserializers) -> anyhow::Result<Box<dyn Append>> {
        let mut r = REGISTRY.lock().unwrap();
        let serial = r.built.len();
        r.built.push(config.tag.clone());
        Ok(Box::new(CaptureAppender { tag: config.tag, serial }))
    }
}

pub fn deserializers_with_capture() -> log4rs::config::Deserializers {
    let mut d = log4rs::config::Deserializers::default();
    d.insert("capture", CaptureDeserializer);
    d
}

/// takes and clears the deliveries recorded so far
pub fn take_deliveries() -> Vec<(String, usize, String)> {
    std::mem::take(&mut REGISTRY.lock().unwrap().delivered)
}

// ---------------------------------------------------------------------------------------------
// A capturing `encode::Write`: records bytes and style requests; optionally accepts at most
// `limit` bytes per `write` call (short writes are a legal answer of any io::Write).

#[derive(Clone, Debug, PartialEq, Eq)]
pub struct StyleEv {
    /// byte offset in `buf` at which the style was requested
    pub at: usize,
    pub text: Option<log4rs::encode::Color>,
    pub background: Option<log4rs::encode::Color>,
    pub intense: Option<bool>,
}

#[derive(Default, Debug)]
pub struct Sink {
    pub buf: Vec<u8>,
    pub styles: Vec<StyleEv>,
    pub limit: Option<usize>,
    pub writes: usize,
    /// environment deviation: the k-th write call (0-based) and all later ones fail
    pub fail_at: Option<usize>,
    /// environment deviation: the k-th write call answers ErrorKind::Interrupted once (EINTR); callers must retry
    pub interrupt_at: Option<usize>,
}

impl Sink {
    pub fn new(limit: Option<usize>) -> Sink {
        Sink { buf: vec![], styles: vec![], limit, writes: 0, fail_at: None, interrupt_at: None }
    }
    pub fn failing(limit: Option<usize>, fail_at: usize) -> Sink {
        Sink { buf: vec![], styles: vec![], limit, writes: 0, fail_at: Some(fail_at), interrupt_at: None }
    }
}

impl std::io::Write for Sink {
    fn write(&mut self, b: &[u8]) -> std::io::Result<usize> {
        if let Some(k) = self.fail_at {
            if self.writes >= k {
                self.writes += 1;
                return Err(std::io::Error::new(std::io::ErrorKind::Other, "injected write failure"));
            }
        }
        if self.interrupt_at == Some(self.writes) {
            self.writes += 1;
            return Err(std::io::Error::new(std::io::ErrorKind::Interrupted, "injected EINTR"));
        }
        self.writes += 1;
        let n = match self.limit {
            Some(l) => b.len().min(l),
            None => b.len(),
        };
        self.buf.extend_from_slice(&b[..n]);
        Ok(n)
    }
    fn flush(&mut self) -> std::io::Result<()> {
        Ok(())
    }
}

impl log4rs::encode::Write for Sink {
    fn set_style(&mut self, style: &log4rs::encode::Style) -> std::io::Result<()> {
        self.styles.push(StyleEv { at: self.buf.len(), text: style.text, background: style.background, intense: style.intense });
        Ok(())
    }
}

/// drains the deliveries whose tag starts with `prefix` (parallel cases use distinct prefixes)
pub fn take_deliveries_for(prefix: &str) -> Vec<(String, usize, String)> {
    let mut r = REGISTRY.lock().unwrap();
    let (mine, rest): (Vec<_>, Vec<_>) = std::mem::take(&mut r.delivered).into_iter().partition(|d| d.0.starts_with(prefix));
    r.delivered = rest;
    mine
}
