//! Harness-owned components plugged into the real logger: capturing appenders, scripted filters.

use log::Record;
use log4rs::{append::Append, filter::{Filter, Response}};
use std::sync::{
    atomic::{AtomicUsize, Ordering},
    Arc, Mutex,
};

/// Counts deliveries (cheap, used in the large routing sweeps).
#[derive(Debug)]
pub struct CountAppender(pub Arc<AtomicUsize>);

impl Append for CountAppender {
    fn append(&self, _record: &Record) -> anyhow::Result<()> {
        self.0.fetch_add(1, Ordering::Relaxed);
        Ok(())
    }
    fn flush(&self) {}
}

/// An event observed by a harness component, in global order.
#[derive(Clone, Debug, PartialEq, Eq)]
pub enum Event {
    Filter { appender: usize, index: usize },
    Deliver { appender: usize, msg: String },
    Error { tag: String },
}

pub type EventLog = Arc<Mutex<Vec<Event>>>;

#[derive(Debug)]
pub struct LogAppender {
    pub id: usize,
    pub fail: bool,
    pub log: EventLog,
}

#[derive(Debug)]
pub struct TaggedError(pub String);
impl std::fmt::Display for TaggedError {
    fn fmt(&self, f: &mut std::fmt::Formatter<'_>) -> std::fmt::Result {
        write!(f, "{}", self.0)
    }
}
impl std::error::Error for TaggedError {}

impl Append for LogAppender {
    fn append(&self, record: &Record) -> anyhow::Result<()> {
        self.log.lock().unwrap().push(Event::Deliver {
            appender: self.id,
            msg: format!("{}", record.args()),
        });
        if self.fail {
            Err(TaggedError(format!("fail-{}", self.id)).into())
        } else {
            Ok(())
        }
    }
    fn flush(&self) {}
}

#[derive(Clone, Copy, Debug, PartialEq, Eq)]
pub enum Resp {
    Accept,
    Neutral,
    Reject,
}

#[derive(Debug)]
pub struct ScriptFilter {
    pub appender: usize,
    pub index: usize,
    pub resp: Resp,
    pub log: EventLog,
}

impl Filter for ScriptFilter {
    fn filter(&self, _record: &Record) -> Response {
        self.log.lock().unwrap().push(Event::Filter {
            appender: self.appender,
            index: self.index,
        });
        match self.resp {
            Resp::Accept => Response::Accept,
            Resp::Neutral => Response::Neutral,
            Resp::Reject => Response::Reject,
        }
    }
}
