//! E-SCHED — controlled scheduler: preemption-bounded stateless DFS over real OS threads.
//!
//! Exactly one controlled thread runs at any time (it holds the baton); it hands the baton over
//! only at scheduling points: the shim Mutex/ArcSwap operations of the library (through the
//! cfg-guarded hooks) and explicit `yield_now()` calls placed by harness-owned components inside
//! the critical sections.  A schedule is the sequence of choice indices over the canonical enabled
//! list (running thread first if still enabled, then ascending ids); executions are re-run from
//! scratch (stateless).  Iterative context bounding: all schedules with at most `bound` preemptions.

use super::hooks::{self, ThreadAgent};
use std::{
    sync::{Arc, Condvar, Mutex},
    time::{Duration, Instant},
};

#[derive(Clone, Copy, Debug, PartialEq, Eq)]
enum St {
    Ready,
    Blocked(usize),
    /// waiting on a condition variable
    CondWait(usize),
    Finished,
}

#[derive(Clone, Debug, PartialEq, Eq)]
pub struct Point {
    pub enabled: Vec<usize>,
    pub running_enabled: bool,
    pub chosen: usize,
    pub kind: &'static str,
}

struct Inner {
    st: Vec<St>,
    current: Option<usize>,
    running: Option<usize>,
    prefix: Vec<usize>,
    points: Vec<Point>,
    aborted: Option<String>,
    deadlock: bool,
    finished: usize,
}

pub struct Sched {
    inner: Mutex<Inner>,
    cv: Condvar,
}

struct Agent {
    sched: Arc<Sched>,
    tid: usize,
}

impl Sched {
    fn enabled(inner: &Inner) -> (Vec<usize>, bool) {
        let mut v = vec![];
        let mut running_enabled = false;
        if let Some(r) = inner.running {
            if inner.st[r] == St::Ready {
                v.push(r);
                running_enabled = true;
            }
        }
        for (t, s) in inner.st.iter().enumerate() {
            if *s == St::Ready && Some(t) != inner.running {
                v.push(t);
            }
        }
        (v, running_enabled)
    }

    /// picks the next thread to run; must be called with the lock held
    fn pick(inner: &mut Inner, kind: &'static str) {
        let (enabled, running_enabled) = Self::enabled(inner);
        if enabled.is_empty() {
            if inner.st.iter().any(|s| matches!(s, St::Blocked(_) | St::CondWait(_))) {
                inner.deadlock = true;
                inner.aborted = Some("deadlock: every unfinished thread is blocked".into());
            }
            inner.current = None;
            return;
        }
        let idx = inner.points.len();
        let choice = inner.prefix.get(idx).copied().unwrap_or(0);
        if choice >= enabled.len() {
            inner.aborted = Some(format!("schedule prefix cannot be followed at point {} (choice {} of {} enabled)", idx, choice, enabled.len()));
            inner.current = None;
            return;
        }
        let next = enabled[choice];
        inner.points.push(Point { enabled, running_enabled, chosen: choice, kind });
        inner.current = Some(next);
        inner.running = Some(next);
    }

    fn wait_turn(&self, tid: usize) {
        let mut g = self.inner.lock().unwrap();
        loop {
            if g.aborted.is_some() {
                drop(g);
                // the execution was abandoned: this thread must not touch shared state any more
                loop {
                    std::thread::park();
                }
            }
            if g.current == Some(tid) {
                return;
            }
            g = self.cv.wait(g).unwrap();
        }
    }

    fn yield_point(&self, tid: usize, kind: &'static str) {
        {
            let mut g = self.inner.lock().unwrap();
            if g.aborted.is_none() {
                g.st[tid] = St::Ready;
                Self::pick(&mut g, kind);
            }
            self.cv.notify_all();
        }
        self.wait_turn(tid);
    }

    fn block(&self, tid: usize, id: usize) {
        {
            let mut g = self.inner.lock().unwrap();
            if g.aborted.is_none() {
                g.st[tid] = St::Blocked(id);
                Self::pick(&mut g, "blocked");
            }
            self.cv.notify_all();
        }
        self.wait_turn(tid);
    }

    fn release(&self, id: usize) {
        let mut g = self.inner.lock().unwrap();
        for s in g.st.iter_mut() {
            if *s == St::Blocked(id) {
                *s = St::Ready;
            }
        }
    }

    fn cond_wait(&self, tid: usize, cond: usize) {
        {
            let mut g = self.inner.lock().unwrap();
            if g.aborted.is_none() {
                g.st[tid] = St::CondWait(cond);
                Self::pick(&mut g, "cond-wait");
            }
            self.cv.notify_all();
        }
        self.wait_turn(tid);
    }

    fn cond_notify(&self, cond: usize) {
        let mut g = self.inner.lock().unwrap();
        if let Some(s) = g.st.iter_mut().find(|s| **s == St::CondWait(cond)) {
            *s = St::Ready;
        }
    }

    /// a thread spawned by the code under test: known to the scheduler from the moment of the spawn
    fn add_thread(&self) -> usize {
        let mut g = self.inner.lock().unwrap();
        g.st.push(St::Ready);
        g.st.len() - 1
    }

    fn finish(&self, tid: usize) {
        let mut g = self.inner.lock().unwrap();
        g.st[tid] = St::Finished;
        g.finished += 1;
        if g.aborted.is_none() {
            if g.finished < g.st.len() {
                Self::pick(&mut g, "finished");
            } else {
                g.current = None;
            }
        }
        self.cv.notify_all();
    }
}

impl ThreadAgent for Agent {
    fn point(&self, kind: &'static str, _id: usize) {
        self.sched.yield_point(self.tid, kind);
    }
    fn blocked(&self, id: usize) {
        self.sched.block(self.tid, id);
    }
    fn acquired(&self, _id: usize) {}
    fn released(&self, id: usize) {
        self.sched.release(id);
    }
    fn cond_wait(&self, cond: usize) {
        self.sched.cond_wait(self.tid, cond);
    }
    fn cond_notify(&self, cond: usize) {
        self.sched.cond_notify(cond);
    }
    fn create_child(&self) -> Option<Arc<dyn ThreadAgent>> {
        let tid = self.sched.add_thread();
        Some(Arc::new(Agent { sched: self.sched.clone(), tid }))
    }
    fn start(&self) {
        self.sched.wait_turn(self.tid);
    }
    fn end(&self) {
        self.sched.finish(self.tid);
    }
}

/// an explicit scheduling point for harness-owned components (no-op on uncontrolled threads)
pub fn yield_now() {
    hooks::harness_point("yield");
}

#[derive(Debug, Clone)]
pub struct Execution {
    pub points: Vec<Point>,
    pub deadlock: bool,
    /// set when the execution could not be completed (prefix not followable, watchdog) — machinery failure unless `deadlock`
    pub aborted: Option<String>,
    pub panics: Vec<String>,
}

impl Execution {
    pub fn choices(&self) -> Vec<usize> {
        self.points.iter().map(|p| p.chosen).collect()
    }
    pub fn preemptions(&self) -> usize {
        self.points.iter().filter(|p| p.running_enabled && p.chosen > 0).count()
    }
}

/// Runs the thread bodies under the baton following `prefix`, then default choices (0).
pub fn run_schedule(bodies: Vec<Box<dyn FnOnce() + Send + 'static>>, prefix: &[usize], watchdog: Duration) -> Execution {
    hooks::ensure_installed();
    let n = bodies.len();
    let _ = n;
    let sched = Arc::new(Sched {
        inner: Mutex::new(Inner { st: vec![St::Ready; n], current: None, running: None, prefix: prefix.to_vec(), points: vec![], aborted: None, deadlock: false, finished: 0 }),
        cv: Condvar::new(),
    });
    let panics: Arc<Mutex<Vec<String>>> = Arc::new(Mutex::new(vec![]));
    let mut handles = vec![];
    for (tid, body) in bodies.into_iter().enumerate() {
        let sched = sched.clone();
        let panics = panics.clone();
        handles.push(
            std::thread::Builder::new()
                .name(format!("sched-{}", tid))
                .spawn(move || {
                    hooks::set_thread_agent(Some(Arc::new(Agent { sched: sched.clone(), tid })));
                    sched.wait_turn(tid);
                    let r = super::catch_panic(body);
                    if let Err(p) = r {
                        panics.lock().unwrap().push(p);
                    }
                    hooks::set_thread_agent(None);
                    sched.finish(tid);
                })
                .expect("spawn"),
        );
    }
    {
        let mut g = sched.inner.lock().unwrap();
        Sched::pick(&mut g, "start");
        sched.cv.notify_all();
    }
    let start = Instant::now();
    let mut g = sched.inner.lock().unwrap();
    loop {
        if g.finished == g.st.len() || g.aborted.is_some() {
            break;
        }
        let left = watchdog.checked_sub(start.elapsed());
        match left {
            None => {
                g.aborted = Some("watchdog: a controlled thread did not reach its next scheduling point (blocked in a primitive the scheduler does not see?)".into());
                break;
            }
            Some(l) => {
                let (ng, _) = sched.cv.wait_timeout(g, l).unwrap();
                g = ng;
            }
        }
    }
    let ex = Execution { points: g.points.clone(), deadlock: g.deadlock, aborted: g.aborted.clone(), panics: panics.lock().unwrap().clone() };
    let aborted = g.aborted.is_some();
    drop(g);
    sched.cv.notify_all();
    if !aborted {
        for h in handles {
            let _ = h.join();
        }
    }
    // abandoned executions leak their parked threads on purpose
    ex
}

#[derive(Default, Debug)]
pub struct SchedStats {
    pub schedules: u64,
    pub max_points: usize,
    pub bound: usize,
    pub complete: bool,
    pub by_preemptions: Vec<u64>,
    /// schedules executed a second time from scratch with their full choice sequence
    pub reexecuted: u64,
    /// of those, executions whose scheduling points or verdict differed (uncontrolled nondeterminism)
    pub diverged: u64,
}

/// Iterative context bounding over one harness.  `exec(prefix)` must build fresh objects, run the
/// schedule and judge it; it returns the execution and the judged outcome (Ok(outcome label) or
/// Err((signature, detail))).  Exploration is parallel over a shared work list of prefixes.
pub fn explore<F>(bound: usize, exec: F, deadline: &dyn Fn() -> bool) -> (SchedStats, std::collections::BTreeMap<String, u64>, Vec<(String, String, Vec<usize>)>)
where
    F: Fn(&[usize]) -> (Execution, Result<String, (String, String)>) + Sync,
{
    use rayon::prelude::*;
    let mut stats = SchedStats { bound, complete: true, by_preemptions: vec![0; bound + 1], ..Default::default() };
    let mut outcomes: std::collections::BTreeMap<String, u64> = Default::default();
    let mut violations: Vec<(String, String, Vec<usize>)> = vec![];
    let mut work: Vec<Vec<usize>> = vec![vec![]];
    while !work.is_empty() {
        if deadline() {
            stats.complete = false;
            break;
        }
        let batch: Vec<Vec<usize>> = std::mem::take(&mut work);
        let results: Vec<(Vec<usize>, Execution, Result<String, (String, String)>)> = batch
            .into_par_iter()
            .map(|prefix| {
                let (ex, verdict) = exec(&prefix);
                (prefix, ex, verdict)
            })
            .collect();
        // determinism: every eighth schedule of a batch, and every violating schedule, is executed a
        // second time from scratch following its complete choice sequence; scheduling points (kind,
        // enabled set, choice) and the verdict must be identical — a violation that does not repeat
        // is reported as a machinery failure, never as a verdict.
        let recheck: Vec<usize> = results
            .iter()
            .enumerate()
            .filter(|(i, (_, ex, v))| ex.aborted.is_none() && (*i % 8 == 0 || v.is_err()))
            .map(|(i, _)| i)
            .collect();
        let second: Vec<(usize, Execution, Result<String, (String, String)>)> = recheck
            .into_par_iter()
            .map(|i| {
                let (ex2, v2) = exec(&results[i].1.choices());
                (i, ex2, v2)
            })
            .collect();
        let mut unstable: std::collections::BTreeSet<usize> = Default::default();
        for (i, ex2, v2) in second {
            stats.reexecuted += 1;
            let (_, ex, v) = &results[i];
            let same_verdict = match (v, &v2) {
                (Ok(a), Ok(b)) => a == b,
                (Err((a, _)), Err((b, _))) => a == b,
                _ => false,
            };
            if ex.points != ex2.points || !same_verdict {
                stats.diverged += 1;
                unstable.insert(i);
                violations.push((
                    "MACHINERY".into(),
                    format!(
                        "nondeterministic execution: the same schedule gave {} points / {:?} first and {} points / {:?} on re-execution",
                        ex.points.len(),
                        v.as_ref().map_err(|e| &e.0),
                        ex2.points.len(),
                        v2.as_ref().map_err(|e| &e.0)
                    ),
                    ex.choices(),
                ));
            }
        }
        for (ri, (prefix, ex, verdict)) in results.into_iter().enumerate() {
            let verdict = if unstable.contains(&ri) && verdict.is_err() { Ok("unstable".to_string()) } else { verdict };
            stats.schedules += 1;
            stats.max_points = stats.max_points.max(ex.points.len());
            let pre = ex.preemptions();
            if pre <= bound {
                stats.by_preemptions[pre] += 1;
            }
            match verdict {
                Ok(label) => *outcomes.entry(label).or_default() += 1,
                Err((sig, detail)) => violations.push((sig, detail, ex.choices())),
            }
            if let Some(a) = &ex.aborted {
                if !ex.deadlock {
                    violations.push(("MACHINERY".into(), a.clone(), ex.choices()));
                    continue;
                }
            }
            // children: deviate at every later point
            let mut cost = 0usize;
            for (i, p) in ex.points.iter().enumerate() {
                if i >= prefix.len() {
                    let extra = if p.running_enabled { 1 } else { 0 };
                    if cost + extra <= bound {
                        for alt in 1..p.enabled.len() {
                            let mut child: Vec<usize> = ex.points[..i].iter().map(|q| q.chosen).collect();
                            child.push(alt);
                            work.push(child);
                        }
                    }
                }
                if p.running_enabled && p.chosen > 0 {
                    cost += 1;
                }
            }
        }
    }
    (stats, outcomes, violations)
}
