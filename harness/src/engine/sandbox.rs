//! Scratch directories on tmpfs and recursive directory snapshots.

use std::{
    collections::BTreeMap,
    fs,
    io::Read,
    path::{Path, PathBuf},
    sync::atomic::{AtomicU64, Ordering},
};

static COUNTER: AtomicU64 = AtomicU64::new(0);

pub fn scratch_root() -> PathBuf {
    // worker processes work below their parent's root, so that the parent's clean-up also covers a
    // worker that was killed or died
    if let Ok(r) = std::env::var("VERIF_SCRATCH_ROOT") {
        if !r.is_empty() {
            return PathBuf::from(r);
        }
    }
    let base = if Path::new("/dev/shm").is_dir() {
        PathBuf::from("/dev/shm")
    } else {
        std::env::temp_dir()
    };
    base.join(format!("verif-log4rs-{}", std::process::id()))
}

/// A fresh empty directory, removed on drop.
pub struct Sandbox {
    pub dir: PathBuf,
}

impl Sandbox {
    pub fn new() -> Sandbox {
        let n = COUNTER.fetch_add(1, Ordering::Relaxed);
        let dir = scratch_root().join(format!("s{}", n));
        let _ = fs::remove_dir_all(&dir);
        fs::create_dir_all(&dir).expect("create sandbox");
        Sandbox { dir }
    }
    pub fn path(&self, rel: &str) -> PathBuf {
        self.dir.join(rel)
    }
    pub fn p(&self, rel: &str) -> String {
        self.dir.join(rel).to_string_lossy().into_owned()
    }
}

impl Drop for Sandbox {
    fn drop(&mut self) {
        let _ = fs::remove_dir_all(&self.dir);
    }
}

pub fn cleanup_scratch() {
    let _ = fs::remove_dir_all(scratch_root());
    sweep_stale();
}

/// removes scratch roots left behind by harness processes that no longer exist (killed, crashed)
pub fn sweep_stale() {
    if std::env::var("VERIF_SCRATCH_ROOT").map_or(false, |r| !r.is_empty()) {
        return; // workers leave that to their parent
    }
    let base = match scratch_root().parent() {
        Some(b) => b.to_path_buf(),
        None => return,
    };
    if let Ok(rd) = fs::read_dir(&base) {
        for e in rd.flatten() {
            let name = e.file_name().to_string_lossy().into_owned();
            if let Some(pid) = name.strip_prefix("verif-log4rs-").and_then(|p| p.parse::<u32>().ok()) {
                if pid != std::process::id() && !Path::new(&format!("/proc/{}", pid)).exists() {
                    let _ = fs::remove_dir_all(e.path());
                }
            }
        }
    }
}

/// free inodes of the file system holding the scratch root (None if unknown)
pub fn free_inodes() -> Option<u64> {
    let base = scratch_root().parent()?.to_path_buf();
    let c = std::ffi::CString::new(base.to_string_lossy().as_bytes()).ok()?;
    let mut st: libc::statvfs = unsafe { std::mem::zeroed() };
    if unsafe { libc::statvfs(c.as_ptr(), &mut st) } == 0 {
        Some(st.f_ffree as u64)
    } else {
        None
    }
}

#[derive(Clone, Debug, PartialEq, Eq, Hash, PartialOrd, Ord)]
pub enum Entry {
    Dir,
    File(Vec<u8>),
}

/// relative path -> entry, recursively (the root itself is not listed)
pub type Snapshot = BTreeMap<String, Entry>;

pub fn snapshot(root: &Path) -> Snapshot {
    let mut out = Snapshot::new();
    fn walk(root: &Path, dir: &Path, out: &mut Snapshot) {
        let rd = match fs::read_dir(dir) {
            Ok(r) => r,
            Err(_) => return,
        };
        for e in rd.flatten() {
            let p = e.path();
            let rel = p.strip_prefix(root).unwrap().to_string_lossy().into_owned();
            let ft = match e.file_type() {
                Ok(t) => t,
                Err(_) => continue,
            };
            if ft.is_dir() {
                out.insert(rel, Entry::Dir);
                walk(root, &p, out);
            } else {
                out.insert(rel, Entry::File(fs::read(&p).unwrap_or_default()));
            }
        }
    }
    walk(root, root, &mut out);
    out
}

pub fn materialise(snap: &Snapshot, root: &Path) {
    fs::create_dir_all(root).unwrap();
    for (rel, e) in snap {
        let p = root.join(rel);
        match e {
            Entry::Dir => {
                fs::create_dir_all(&p).unwrap();
            }
            Entry::File(b) => {
                if let Some(parent) = p.parent() {
                    fs::create_dir_all(parent).unwrap();
                }
                fs::write(&p, b).unwrap();
            }
        }
    }
}

/// only the files, as (path, bytes)
pub fn files(snap: &Snapshot) -> BTreeMap<String, Vec<u8>> {
    snap.iter()
        .filter_map(|(k, v)| match v {
            Entry::File(b) => Some((k.clone(), b.clone())),
            Entry::Dir => None,
        })
        .collect()
}

pub fn gunzip(b: &[u8]) -> Result<Vec<u8>, String> {
    let mut d = flate2::read::GzDecoder::new(b);
    let mut out = vec![];
    d.read_to_end(&mut out).map_err(|e| e.to_string())?;
    Ok(out)
}

pub fn unzstd(b: &[u8]) -> Result<Vec<u8>, String> {
    zstd::stream::decode_all(b).map_err(|e| e.to_string())
}

/// decompress according to the file name's extension
pub fn decode_by_ext(name: &str, b: &[u8]) -> Result<Vec<u8>, String> {
    if name.ends_with(".gz") {
        gunzip(b)
    } else if name.ends_with(".zst") {
        unzstd(b)
    } else {
        Ok(b.to_vec())
    }
}

pub fn show_bytes(b: &[u8]) -> String {
    let s = String::from_utf8_lossy(b);
    if s.len() > 80 {
        format!("{}…({}B)", s.chars().take(60).collect::<String>(), b.len())
    } else {
        s.into_owned()
    }
}
