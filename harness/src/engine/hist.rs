//! E-HIST — explicit-state breadth-first exploration of a reference model with per-transition
//! conformance replay on the real implementation.
//!
//! A state of the search is a reference-model state plus the shortest operation path that reached
//! it.  States are deduplicated on `key(state)` (the model's canonical form); for every transition
//! out of every distinct state the complete path is replayed on a *fresh* instance of the real
//! implementation and compared with the model after every step (`conform`).  A transition whose
//! replay disagrees is recorded (shortest path first, because the search is breadth-first) and not
//! expanded further; the search itself goes on, so that several different violations are found.

use super::Ctx;
use rayon::prelude::*;
use std::{
    collections::HashSet,
    fmt::Debug,
    hash::Hash,
    sync::Mutex,
};

pub trait HistSpec: Sync {
    type Op: Clone + Debug + Send + Sync;
    type State: Clone + Debug + Send + Sync;
    type Key: Hash + Eq + Send + Sync;

    fn init(&self) -> Self::State;
    fn ops(&self, s: &Self::State) -> Vec<Self::Op>;
    /// reference transition
    fn step(&self, s: &Self::State, op: &Self::Op) -> Self::State;
    /// canonical form used for deduplication (must determine the model's future behaviour)
    fn key(&self, s: &Self::State) -> Self::Key;
    /// Replays `path` from a fresh initial state on the real implementation, comparing with the
    /// model after every step.  Err((signature, detail)) on the first disagreement.
    fn conform(&self, path: &[Self::Op]) -> Result<(), (String, String)>;
}

#[derive(Default, Debug)]
pub struct HistStats {
    pub states: u64,
    pub transitions: u64,
    pub replays: u64,
    pub max_depth: u64,
    pub complete: bool,
    pub depth_counts: Vec<u64>,
}

pub struct HistViolation<Op> {
    pub signature: String,
    pub detail: String,
    pub path: Vec<Op>,
}

pub fn explore<S: HistSpec>(spec: &S, max_depth: usize, ctx: &Ctx) -> (HistStats, Vec<HistViolation<S::Op>>) {
    let mut stats = HistStats { complete: true, ..Default::default() };
    let mut violations: Vec<HistViolation<S::Op>> = vec![];
    let init = spec.init();
    let seen: Mutex<HashSet<S::Key>> = Mutex::new(HashSet::new());
    seen.lock().unwrap().insert(spec.key(&init));
    // the empty path must conform too (construction of the initial state)
    stats.replays += 1;
    if let Err((signature, detail)) = spec.conform(&[]) {
        violations.push(HistViolation { signature, detail, path: vec![] });
        stats.states = 1;
        return (stats, violations);
    }
    let mut frontier: Vec<(S::State, Vec<S::Op>)> = vec![(init, vec![])];
    stats.states = 1;
    stats.depth_counts.push(1);
    for depth in 0..max_depth {
        if frontier.is_empty() {
            break;
        }
        if ctx.over_cap() {
            stats.complete = false;
            break;
        }
        type Out<S> = (Vec<(<S as HistSpec>::State, Vec<<S as HistSpec>::Op>)>, Vec<HistViolation<<S as HistSpec>::Op>>, u64, bool);
        let results: Vec<Out<S>> = frontier
            .par_iter()
            .map(|(state, path)| {
                let mut next = vec![];
                let mut bad = vec![];
                let mut trans = 0u64;
                let mut cut = false;
                for op in spec.ops(state) {
                    if ctx.over_cap() {
                        cut = true;
                        break;
                    }
                    trans += 1;
                    let mut p = path.clone();
                    p.push(op.clone());
                    match spec.conform(&p) {
                        Err((signature, detail)) => bad.push(HistViolation { signature, detail, path: p }),
                        Ok(()) => {
                            let s2 = spec.step(state, &op);
                            if seen.lock().unwrap().insert(spec.key(&s2)) {
                                next.push((s2, p));
                            }
                        }
                    }
                }
                (next, bad, trans, cut)
            })
            .collect();
        let mut next_frontier = vec![];
        for (next, bad, trans, cut) in results {
            stats.transitions += trans;
            stats.replays += trans;
            if cut {
                stats.complete = false;
            }
            next_frontier.extend(next);
            violations.extend(bad);
        }
        if !next_frontier.is_empty() {
            stats.max_depth = depth as u64 + 1;
        }
        stats.states += next_frontier.len() as u64;
        stats.depth_counts.push(next_frontier.len() as u64);
        frontier = next_frontier;
    }
    (stats, violations)
}
