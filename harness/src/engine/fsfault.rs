//! E-FAULT — crash-point and fault enumeration by libc interposition.
//!
//! The harness binary defines the libc entry points that mutate the file system
//! (`open/open64/openat/creat/write/rename*/unlink*/mkdir*/rmdir/ftruncate*/link/symlink/
//! copy_file_range/sendfile*`).  The Rust standard library inside this executable binds to them at
//! link time; the real operation is issued with `syscall(2)`.  Calls are *counted* only on a thread
//! that opened a session and only when their path (or tracked descriptor) lies under the session's
//! sandbox root, so the harness's own I/O is invisible.  Per counted call the session can
//!   * record the call (trace),
//!   * take a complete snapshot of the sandbox immediately before it (crash image),
//!   * make it fail atomically with a chosen errno (fault).

use super::sandbox::{snapshot, Snapshot};
use libc::{c_char, c_int, c_uint, c_void, mode_t, off_t, size_t, ssize_t};
use std::{
    cell::{Cell, RefCell},
    collections::BTreeSet,
    ffi::CStr,
    path::PathBuf,
};

#[derive(Clone, Debug, PartialEq, Eq)]
pub struct Call {
    pub k: usize,
    pub op: &'static str,
    pub a: String,
    pub b: String,
    pub len: usize,
    pub failed: Option<i32>,
}

#[derive(Clone, Debug, Default)]
pub struct Plan {
    /// fail the k-th counted call with this errno
    pub fail: Vec<(usize, i32)>,
    /// fail every counted call of this kind whose index is >= from (used for EXDEV on rename #k only via `fail`)
    pub snapshots: bool,
    /// only calls of these kinds are counted (empty = all)
    pub kinds: Vec<&'static str>,
    /// environment deviation: the k-th counted call, if it is a write, accepts at most this many bytes
    pub short: Vec<(usize, usize)>,
}

pub struct Session {
    root: PathBuf,
    root_s: String,
    plan: Plan,
    pub calls: Vec<Call>,
    pub images: Vec<Snapshot>,
    fds: BTreeSet<c_int>,
    armed: bool,
}

thread_local! {
    static SESSION: RefCell<Option<Session>> = const { RefCell::new(None) };
    static IN_HOOK: Cell<bool> = const { Cell::new(false) };
}

pub fn begin(root: &std::path::Path, plan: Plan) {
    let root_s = root.to_string_lossy().into_owned();
    SESSION.with(|s| {
        *s.borrow_mut() = Some(Session { root: root.to_path_buf(), root_s, plan, calls: vec![], images: vec![], fds: BTreeSet::new(), armed: false })
    });
}

/// counting starts (and restarts from 0) here; descriptors opened earlier stay tracked
pub fn arm() {
    SESSION.with(|s| {
        if let Some(s) = s.borrow_mut().as_mut() {
            s.armed = true;
            s.calls.clear();
            s.images.clear();
        }
    });
}

pub fn disarm() {
    SESSION.with(|s| {
        if let Some(s) = s.borrow_mut().as_mut() {
            s.armed = false;
        }
    });
}

pub fn end() -> Option<(Vec<Call>, Vec<Snapshot>)> {
    SESSION.with(|s| s.borrow_mut().take().map(|s| (s.calls, s.images)))
}

fn cstr(p: *const c_char) -> String {
    if p.is_null() {
        return String::new();
    }
    unsafe { CStr::from_ptr(p) }.to_string_lossy().into_owned()
}

fn set_errno(e: i32) {
    unsafe { *libc::__errno_location() = e };
}

enum Decision {
    /// counted write that the kernel only partly accepts
    Short(usize),
    /// not counted: just do the real thing
    Pass,
    /// counted: do the real thing, then record
    Go(usize),
    Fail(i32),
}

/// decides what to do with a path-based call; takes the crash image when asked to
fn decide(op: &'static str, a: &str, b: &str, len: usize, fd: Option<c_int>) -> Decision {
    if IN_HOOK.try_with(|h| h.get()).unwrap_or(true) {
        return Decision::Pass;
    }
    SESSION
        .try_with(|cell| {
        let mut guard = match cell.try_borrow_mut() {
            Ok(g) => g,
            Err(_) => return Decision::Pass,
        };
        let s = match guard.as_mut() {
            Some(s) => s,
            None => return Decision::Pass,
        };
        let in_root = |p: &str| p.starts_with(&s.root_s);
        let relevant = match fd {
            Some(fd) => s.fds.contains(&fd),
            None => in_root(a) || (!b.is_empty() && in_root(b)),
        };
        if !relevant || !s.armed {
            return Decision::Pass;
        }
        if !s.plan.kinds.is_empty() && !s.plan.kinds.contains(&op) {
            return Decision::Pass;
        }
        let k = s.calls.len();
        if s.plan.snapshots {
            IN_HOOK.with(|h| h.set(true));
            let img = snapshot(&s.root);
            IN_HOOK.with(|h| h.set(false));
            s.images.push(img);
        }
        let rel = |p: &str| p.strip_prefix(&s.root_s).map(|r| r.trim_start_matches('/').to_string()).unwrap_or_else(|| p.to_string());
        let failed = s.plan.fail.iter().find(|(fk, _)| *fk == k).map(|(_, e)| *e);
        s.calls.push(Call { k, op, a: rel(a), b: rel(b), len, failed });
        match failed {
            Some(e) => Decision::Fail(e),
            None => match s.plan.short.iter().find(|(sk, _)| *sk == k) {
                Some((_, max)) if op == "write" => Decision::Short(*max),
                _ => Decision::Go(k),
            },
        }
    })
        .unwrap_or(Decision::Pass)
}

fn track_fd(fd: c_int, path: &str) {
    if fd < 0 || IN_HOOK.try_with(|h| h.get()).unwrap_or(true) {
        return;
    }
    let _ = SESSION.try_with(|cell| {
        if let Ok(mut g) = cell.try_borrow_mut() {
            if let Some(s) = g.as_mut() {
                if path.starts_with(&s.root_s) {
                    s.fds.insert(fd);
                }
            }
        }
    });
}

fn untrack_fd(fd: c_int) {
    let _ = SESSION.try_with(|cell| {
        if let Ok(mut g) = cell.try_borrow_mut() {
            if let Some(s) = g.as_mut() {
                s.fds.remove(&fd);
            }
        }
    });
}

const WRITE_FLAGS: c_int = libc::O_WRONLY | libc::O_RDWR | libc::O_CREAT | libc::O_TRUNC | libc::O_APPEND;

unsafe fn do_open(dirfd: c_int, path: *const c_char, flags: c_int, mode: mode_t) -> c_int {
    let p = cstr(path);
    let mutating = flags & WRITE_FLAGS != 0;
    if mutating {
        match decide("open", &p, "", flags as usize, None) {
            Decision::Fail(e) => {
                set_errno(e);
                return -1;
            }
            _ => {}
        }
    }
    let fd = libc::syscall(libc::SYS_openat, dirfd, path, flags, mode as c_uint) as c_int;
    if mutating {
        track_fd(fd, &p);
    }
    fd
}

#[no_mangle]
pub unsafe extern "C" fn open(path: *const c_char, flags: c_int, mode: mode_t) -> c_int {
    do_open(libc::AT_FDCWD, path, flags, mode)
}

#[no_mangle]
pub unsafe extern "C" fn open64(path: *const c_char, flags: c_int, mode: mode_t) -> c_int {
    do_open(libc::AT_FDCWD, path, flags | libc::O_LARGEFILE, mode)
}

#[no_mangle]
pub unsafe extern "C" fn openat(dirfd: c_int, path: *const c_char, flags: c_int, mode: mode_t) -> c_int {
    do_open(dirfd, path, flags, mode)
}

#[no_mangle]
pub unsafe extern "C" fn openat64(dirfd: c_int, path: *const c_char, flags: c_int, mode: mode_t) -> c_int {
    do_open(dirfd, path, flags | libc::O_LARGEFILE, mode)
}

#[no_mangle]
pub unsafe extern "C" fn creat(path: *const c_char, mode: mode_t) -> c_int {
    do_open(libc::AT_FDCWD, path, libc::O_CREAT | libc::O_WRONLY | libc::O_TRUNC, mode)
}

#[no_mangle]
pub unsafe extern "C" fn close(fd: c_int) -> c_int {
    untrack_fd(fd);
    libc::syscall(libc::SYS_close, fd) as c_int
}

#[no_mangle]
pub unsafe extern "C" fn write(fd: c_int, buf: *const c_void, count: size_t) -> ssize_t {
    match decide("write", "", "", count, Some(fd)) {
        Decision::Fail(e) => {
            set_errno(e);
            return -1;
        }
        Decision::Short(max) => return libc::syscall(libc::SYS_write, fd, buf, count.min(max.max(1))) as ssize_t,
        _ => {}
    }
    libc::syscall(libc::SYS_write, fd, buf, count) as ssize_t
}

#[no_mangle]
pub unsafe extern "C" fn rename(old: *const c_char, new: *const c_char) -> c_int {
    if let Decision::Fail(e) = decide("rename", &cstr(old), &cstr(new), 0, None) {
        // EXDEV ("other mount") is only a faithful answer when the source exists (a missing source is ENOENT on any
        // mount) and when source and destination lie in different directories (one directory is one mount)
        let same_dir = {
            let (o, n) = (cstr(old), cstr(new));
            std::path::Path::new(&o).parent() == std::path::Path::new(&n).parent()
        };
        if !(e == libc::EXDEV && (same_dir || libc::syscall(libc::SYS_access, old, libc::F_OK) != 0)) {
            set_errno(e);
            return -1;
        }
    }
    libc::syscall(libc::SYS_rename, old, new) as c_int
}

#[no_mangle]
pub unsafe extern "C" fn renameat(olddir: c_int, old: *const c_char, newdir: c_int, new: *const c_char) -> c_int {
    if let Decision::Fail(e) = decide("rename", &cstr(old), &cstr(new), 0, None) {
        set_errno(e);
        return -1;
    }
    libc::syscall(libc::SYS_renameat, olddir, old, newdir, new) as c_int
}

#[no_mangle]
pub unsafe extern "C" fn renameat2(olddir: c_int, old: *const c_char, newdir: c_int, new: *const c_char, flags: c_uint) -> c_int {
    if let Decision::Fail(e) = decide("rename", &cstr(old), &cstr(new), 0, None) {
        set_errno(e);
        return -1;
    }
    libc::syscall(libc::SYS_renameat2, olddir, old, newdir, new, flags) as c_int
}

#[no_mangle]
pub unsafe extern "C" fn unlink(path: *const c_char) -> c_int {
    if let Decision::Fail(e) = decide("unlink", &cstr(path), "", 0, None) {
        set_errno(e);
        return -1;
    }
    libc::syscall(libc::SYS_unlink, path) as c_int
}

#[no_mangle]
pub unsafe extern "C" fn unlinkat(dirfd: c_int, path: *const c_char, flags: c_int) -> c_int {
    if let Decision::Fail(e) = decide(if flags & libc::AT_REMOVEDIR != 0 { "rmdir" } else { "unlink" }, &cstr(path), "", 0, None) {
        set_errno(e);
        return -1;
    }
    libc::syscall(libc::SYS_unlinkat, dirfd, path, flags) as c_int
}

#[no_mangle]
pub unsafe extern "C" fn mkdir(path: *const c_char, mode: mode_t) -> c_int {
    if let Decision::Fail(e) = decide("mkdir", &cstr(path), "", 0, None) {
        set_errno(e);
        return -1;
    }
    libc::syscall(libc::SYS_mkdir, path, mode as c_uint) as c_int
}

#[no_mangle]
pub unsafe extern "C" fn mkdirat(dirfd: c_int, path: *const c_char, mode: mode_t) -> c_int {
    if let Decision::Fail(e) = decide("mkdir", &cstr(path), "", 0, None) {
        set_errno(e);
        return -1;
    }
    libc::syscall(libc::SYS_mkdirat, dirfd, path, mode as c_uint) as c_int
}

#[no_mangle]
pub unsafe extern "C" fn rmdir(path: *const c_char) -> c_int {
    if let Decision::Fail(e) = decide("rmdir", &cstr(path), "", 0, None) {
        set_errno(e);
        return -1;
    }
    libc::syscall(libc::SYS_rmdir, path) as c_int
}

#[no_mangle]
pub unsafe extern "C" fn ftruncate(fd: c_int, len: off_t) -> c_int {
    if let Decision::Fail(e) = decide("ftruncate", "", "", len as usize, Some(fd)) {
        set_errno(e);
        return -1;
    }
    libc::syscall(libc::SYS_ftruncate, fd, len) as c_int
}

#[no_mangle]
pub unsafe extern "C" fn ftruncate64(fd: c_int, len: off_t) -> c_int {
    ftruncate(fd, len)
}

#[no_mangle]
pub unsafe extern "C" fn link(old: *const c_char, new: *const c_char) -> c_int {
    if let Decision::Fail(e) = decide("link", &cstr(old), &cstr(new), 0, None) {
        set_errno(e);
        return -1;
    }
    libc::syscall(libc::SYS_link, old, new) as c_int
}

#[no_mangle]
pub unsafe extern "C" fn symlink(old: *const c_char, new: *const c_char) -> c_int {
    if let Decision::Fail(e) = decide("symlink", &cstr(old), &cstr(new), 0, None) {
        set_errno(e);
        return -1;
    }
    libc::syscall(libc::SYS_symlink, old, new) as c_int
}

#[no_mangle]
pub unsafe extern "C" fn copy_file_range(fd_in: c_int, off_in: *mut off_t, fd_out: c_int, off_out: *mut off_t, len: size_t, flags: c_uint) -> ssize_t {
    if let Decision::Fail(e) = decide("copy_file_range", "", "", len, Some(fd_out)) {
        set_errno(e);
        return -1;
    }
    libc::syscall(libc::SYS_copy_file_range, fd_in, off_in, fd_out, off_out, len, flags) as ssize_t
}

#[no_mangle]
pub unsafe extern "C" fn sendfile(out_fd: c_int, in_fd: c_int, offset: *mut off_t, count: size_t) -> ssize_t {
    if let Decision::Fail(e) = decide("sendfile", "", "", count, Some(out_fd)) {
        set_errno(e);
        return -1;
    }
    libc::syscall(libc::SYS_sendfile, out_fd, in_fd, offset, count) as ssize_t
}

#[no_mangle]
pub unsafe extern "C" fn sendfile64(out_fd: c_int, in_fd: c_int, offset: *mut off_t, count: size_t) -> ssize_t {
    sendfile(out_fd, in_fd, offset, count)
}

pub fn call_str(c: &Call) -> String {
    let mut s = format!("#{} {}", c.k, c.op);
    if !c.a.is_empty() {
        s.push_str(&format!(" {}", c.a));
    }
    if !c.b.is_empty() {
        s.push_str(&format!(" -> {}", c.b));
    }
    if c.len > 0 && (c.op == "write" || c.op == "copy_file_range") {
        s.push_str(&format!(" {}B", c.len));
    }
    if let Some(e) = c.failed {
        s.push_str(&format!(" FAILS errno={}", e));
    }
    s
}

/// self-test: a rename under a session is seen, counted and can be failed
pub fn self_test() -> Result<(), String> {
    let sb = super::sandbox::Sandbox::new();
    std::fs::write(sb.path("a"), b"x").unwrap();
    begin(&sb.dir, Plan { fail: vec![(0, libc::EIO)], snapshots: true, kinds: vec![], short: vec![] });
    arm();
    let r = std::fs::rename(sb.path("a"), sb.path("b"));
    let r2 = std::fs::rename(sb.path("a"), sb.path("c"));
    let (calls, images) = end().ok_or("no session")?;
    if r.is_ok() {
        return Err("injected EIO was not observed by fs::rename (interposition inactive)".into());
    }
    if r2.is_err() || !sb.path("c").exists() {
        return Err("pass-through rename failed".into());
    }
    if calls.len() != 2 || images.len() != 2 || calls[0].op != "rename" {
        return Err(format!("unexpected trace {:?}", calls));
    }
    Ok(())
}
