//! The harness side of the cfg-guarded hooks in /repo (`log4rs::verif::Hooks`).
//! One process-wide object dispatches on thread-local state:
//!   * `now`     — per-thread logical clock (E-HIST worlds run in parallel, each with its own time);
//!   * `point` / `blocked` / `acquired` / `released` — forwarded to the scheduler the current thread is registered with (E-SCHED);
//!   * `sleep`   — the reloader rendezvous (C15), or a plain sleep.

use chrono::{DateTime, Local};
use std::{
    cell::{Cell, RefCell},
    sync::{Arc, Once},
    time::Duration,
};

pub trait ThreadAgent: Send + Sync {
    fn point(&self, kind: &'static str, id: usize);
    fn blocked(&self, id: usize);
    fn acquired(&self, id: usize);
    fn released(&self, id: usize);
    fn cond_wait(&self, cond: usize);
    fn cond_notify(&self, cond: usize);
    /// registers a thread that is about to be spawned by the code under test; returns its agent
    fn create_child(&self) -> Option<Arc<dyn ThreadAgent>>;
    /// first / last action of a spawned thread
    fn start(&self);
    fn end(&self);
}

pub trait SleepAgent: Send + Sync {
    fn sleep(&self, rate: Duration);
}

thread_local! {
    static NOW: Cell<Option<DateTime<Local>>> = const { Cell::new(None) };
    static AGENT: RefCell<Option<Arc<dyn ThreadAgent>>> = const { RefCell::new(None) };
}

static PENDING: std::sync::Mutex<Vec<(usize, Arc<dyn ThreadAgent>)>> = std::sync::Mutex::new(Vec::new());
static NEXT_TOKEN: std::sync::atomic::AtomicUsize = std::sync::atomic::AtomicUsize::new(1);

static SLEEP_AGENT: std::sync::RwLock<Option<Arc<dyn SleepAgent>>> = std::sync::RwLock::new(None);

struct Dispatcher;

impl log4rs::verif::Hooks for Dispatcher {
    fn point(&self, kind: &'static str, id: usize) {
        let a = AGENT.with(|a| a.borrow().clone());
        if let Some(a) = a {
            a.point(kind, id);
        }
    }
    fn blocked(&self, id: usize) {
        let a = AGENT.with(|a| a.borrow().clone());
        match a {
            Some(a) => a.blocked(id),
            None => std::thread::yield_now(),
        }
    }
    fn acquired(&self, id: usize) {
        let a = AGENT.with(|a| a.borrow().clone());
        if let Some(a) = a {
            a.acquired(id);
        }
    }
    fn released(&self, id: usize) {
        let a = AGENT.with(|a| a.borrow().clone());
        if let Some(a) = a {
            a.released(id);
        }
    }
    fn cond_wait(&self, cond: usize) {
        let a = AGENT.with(|a| a.borrow().clone());
        match a {
            Some(a) => a.cond_wait(cond),
            None => std::thread::yield_now(),
        }
    }
    fn cond_notify(&self, cond: usize) {
        let a = AGENT.with(|a| a.borrow().clone());
        if let Some(a) = a {
            a.cond_notify(cond);
        }
    }
    fn thread_create(&self) -> usize {
        LIVE_SPAWNED.fetch_add(1, std::sync::atomic::Ordering::SeqCst);
        let a = AGENT.with(|a| a.borrow().clone());
        match a.and_then(|a| a.create_child()) {
            Some(child) => {
                let token = NEXT_TOKEN.fetch_add(1, std::sync::atomic::Ordering::SeqCst);
                PENDING.lock().unwrap().push((token, child));
                token
            }
            None => usize::MAX,
        }
    }
    fn thread_start(&self, token: usize) {
        if token == usize::MAX {
            return;
        }
        let child = {
            let mut p = PENDING.lock().unwrap();
            p.iter().position(|(t, _)| *t == token).map(|i| p.remove(i).1)
        };
        if let Some(child) = child {
            AGENT.with(|x| *x.borrow_mut() = Some(child.clone()));
            child.start();
        }
    }
    fn thread_end(&self, token: usize) {
        LIVE_SPAWNED.fetch_sub(1, std::sync::atomic::Ordering::SeqCst);
        if token == usize::MAX {
            return;
        }
        let a = AGENT.with(|a| a.borrow_mut().take());
        if let Some(a) = a {
            a.end();
        }
    }
    fn now(&self, real: DateTime<Local>) -> DateTime<Local> {
        NOW.with(|n| n.get()).unwrap_or(real)
    }
    fn sleep(&self, rate: Duration) {
        let a = SLEEP_AGENT.read().unwrap().clone();
        match a {
            Some(a) => a.sleep(rate),
            None => std::thread::sleep(rate),
        }
    }
}

static INSTALL: Once = Once::new();

/// threads spawned by the library (through the shimmed `thread::spawn`) that have not finished yet
static LIVE_SPAWNED: std::sync::atomic::AtomicUsize = std::sync::atomic::AtomicUsize::new(0);

/// number of library-spawned threads still running (background rotations); needs the hooks installed
/// before the spawning call
pub fn live_spawned_threads() -> usize {
    LIVE_SPAWNED.load(std::sync::atomic::Ordering::SeqCst)
}

pub fn ensure_installed() {
    INSTALL.call_once(|| log4rs::verif::set_hooks(Some(Arc::new(Dispatcher))));
}

/// sets the logical time seen by the time trigger on this thread (None = wall clock)
pub fn set_now(t: Option<DateTime<Local>>) {
    ensure_installed();
    NOW.with(|n| n.set(t));
}

pub fn set_thread_agent(a: Option<Arc<dyn ThreadAgent>>) {
    ensure_installed();
    AGENT.with(|x| *x.borrow_mut() = a);
}

pub fn set_sleep_agent(a: Option<Arc<dyn SleepAgent>>) {
    ensure_installed();
    *SLEEP_AGENT.write().unwrap() = a;
}

/// an explicit scheduling point reached by harness-owned code (no-op on uncontrolled threads)
pub fn harness_point(kind: &'static str) {
    let a = AGENT.with(|a| a.borrow().clone());
    if let Some(a) = a {
        a.point(kind, 0);
    }
}
