//! The harness side of the cfg-guarded hooks in /repo (`log4rs::verif::Hooks`).
//! One process-wide object dispatches on thread-local state:
//!   * `now`     — per-thread logical clock (E-HIST worlds run in parallel, each with its own time);
//!   * `point` / `blocked` / `acquired` / `released` — forwarded to the scheduler the current thread is registered with (E-SCHED);
//!   * `sleep`   — the reloader rendezvous (C15), or a plain sleep.

use chrono::{DateTime, Local};
use std::{
    cell::{Cell, RefCell},
    sync::{Arc, Once},
    time::Duration,
};

pub trait ThreadAgent: Send + Sync {
    fn point(&self, kind: &'static str, id: usize);
    fn blocked(&self, id: usize);
    fn acquired(&self, id: usize);
    fn released(&self, id: usize);
}

pub trait SleepAgent: Send + Sync {
    fn sleep(&self, rate: Duration);
}

thread_local! {
    static NOW: Cell<Option<DateTime<Local>>> = const { Cell::new(None) };
    static AGENT: RefCell<Option<Arc<dyn ThreadAgent>>> = const { RefCell::new(None) };
}

static SLEEP_AGENT: std::sync::RwLock<Option<Arc<dyn SleepAgent>>> = std::sync::RwLock::new(None);

struct Dispatcher;

impl log4rs::verif::Hooks for Dispatcher {
    fn point(&self, kind: &'static str, id: usize) {
        let a = AGENT.with(|a| a.borrow().clone());
        if let Some(a) = a {
            a.point(kind, id);
        }
    }
    fn blocked(&self, id: usize) {
        let a = AGENT.with(|a| a.borrow().clone());
        match a {
            Some(a) => a.blocked(id),
            None => std::thread::yield_now(),
        }
    }
    fn acquired(&self, id: usize) {
        let a = AGENT.with(|a| a.borrow().clone());
        if let Some(a) = a {
            a.acquired(id);
        }
    }
    fn released(&self, id: usize) {
        let a = AGENT.with(|a| a.borrow().clone());
        if let Some(a) = a {
            a.released(id);
        }
    }
    fn now(&self, real: DateTime<Local>) -> DateTime<Local> {
        NOW.with(|n| n.get()).unwrap_or(real)
    }
    fn sleep(&self, rate: Duration) {
        let a = SLEEP_AGENT.read().unwrap().clone();
        match a {
            Some(a) => a.sleep(rate),
            None => std::thread::sleep(rate),
        }
    }
}

static INSTALL: Once = Once::new();

pub fn ensure_installed() {
    INSTALL.call_once(|| log4rs::verif::set_hooks(Some(Arc::new(Dispatcher))));
}

/// sets the logical time seen by the time trigger on this thread (None = wall clock)
pub fn set_now(t: Option<DateTime<Local>>) {
    ensure_installed();
    NOW.with(|n| n.set(t));
}

pub fn set_thread_agent(a: Option<Arc<dyn ThreadAgent>>) {
    ensure_installed();
    AGENT.with(|x| *x.borrow_mut() = a);
}

pub fn set_sleep_agent(a: Option<Arc<dyn SleepAgent>>) {
    ensure_installed();
    *SLEEP_AGENT.write().unwrap() = a;
}

/// an explicit scheduling point reached by harness-owned code (no-op on uncontrolled threads)
pub fn harness_point(kind: &'static str) {
    let a = AGENT.with(|a| a.borrow().clone());
    if let Some(a) = a {
        a.point(kind, 0);
    }
}
