//! Shared machinery: run context, reports, evidence files, known findings, replay files.

pub mod capture;
pub mod fsfault;
pub mod hist;
pub mod hooks;
pub mod proc;
pub mod sandbox;
pub mod sched;

use serde_json::{json, Map, Value};
use std::{
    collections::BTreeMap,
    path::PathBuf,
    time::{Duration, Instant},
};

#[derive(Clone, Copy, PartialEq, Eq, Debug)]
pub enum Tier {
    Quick,
    Thorough,
}

impl Tier {
    pub fn name(self) -> &'static str {
        match self {
            Tier::Quick => "quick",
            Tier::Thorough => "thorough",
        }
    }
    /// picks the first value in the quick tier, the second in the thorough tier
    pub fn pick<T>(self, quick: T, thorough: T) -> T {
        match self {
            Tier::Quick => quick,
            Tier::Thorough => thorough,
        }
    }
}

pub struct Ctx {
    pub id: String,
    pub tier: Tier,
    pub seed: u64,
    pub start: Instant,
    /// wall-clock cap of this check; engines that hit it must report `exhaustive: false`
    pub cap: Duration,
    pub verif_dir: PathBuf,
    pub exe: PathBuf,
}

impl Ctx {
    pub fn elapsed(&self) -> Duration {
        self.start.elapsed()
    }
    pub fn over_cap(&self) -> bool {
        self.start.elapsed() > self.cap
    }
}

#[derive(Clone, Debug)]
pub struct Violation {
    /// stable identification of *what* fails (call site + input class); no spaces
    pub signature: String,
    pub detail: String,
    /// the minimal failing case, replayable with `run.sh <ID> replay <file>`
    pub replay: Value,
    /// how many explored cases had this signature
    pub count: u64,
}

pub struct Report {
    pub level: &'static str,
    pub coverage: Map<String, Value>,
    pub assumptions: Vec<String>,
    violations: BTreeMap<String, Violation>,
    order: Vec<String>,
}

impl Report {
    pub fn new(level: &'static str) -> Report {
        Report {
            level,
            coverage: Map::new(),
            assumptions: vec![],
            violations: BTreeMap::new(),
            order: vec![],
        }
    }

    pub fn set(&mut self, key: &str, v: impl Into<Value>) {
        self.coverage.insert(key.to_owned(), v.into());
    }

    pub fn add(&mut self, key: &str, n: u64) {
        let cur = self.coverage.get(key).and_then(|v| v.as_u64()).unwrap_or(0);
        self.coverage.insert(key.to_owned(), json!(cur + n));
    }

    pub fn get(&self, key: &str) -> u64 {
        self.coverage.get(key).and_then(|v| v.as_u64()).unwrap_or(0)
    }

    pub fn sample(&mut self, v: impl Into<Value>) {
        let e = self
            .coverage
            .entry("samples".to_owned())
            .or_insert_with(|| json!([]));
        if let Some(a) = e.as_array_mut() {
            if a.len() < 12 {
                a.push(v.into());
            }
        }
    }

    pub fn assume(&mut self, s: impl Into<String>) {
        let s = s.into();
        if !self.assumptions.contains(&s) {
            self.assumptions.push(s);
        }
    }

    /// Records a violation.  The first case recorded for a signature is kept (engines
    /// enumerate simplest-first, so it is the minimal one); later ones only count.
    pub fn violation(&mut self, signature: impl Into<String>, detail: impl Into<String>, replay: Value) {
        let signature: String = signature
            .into()
            .chars()
            .map(|c| if c.is_whitespace() { '_' } else { c })
            .collect();
        match self.violations.get_mut(&signature) {
            Some(v) => v.count += 1,
            None => {
                self.order.push(signature.clone());
                self.violations.insert(
                    signature.clone(),
                    Violation {
                        signature,
                        detail: detail.into(),
                        replay,
                        count: 1,
                    },
                );
            }
        }
    }

    pub fn violations(&self) -> Vec<&Violation> {
        self.order.iter().map(|k| &self.violations[k]).collect()
    }

    pub fn has_signature(&self, sig: &str) -> bool {
        self.violations.contains_key(sig)
    }

    pub fn n_violations(&self) -> usize {
        self.violations.len()
    }

    /// merges another report (coverage counters are added, samples appended)
    pub fn merge(&mut self, other: Report) {
        for (k, v) in other.coverage {
            match (self.coverage.get(&k).cloned(), &v) {
                (Some(Value::Number(a)), Value::Number(b)) if a.is_u64() && b.is_u64() => {
                    self.coverage
                        .insert(k, json!(a.as_u64().unwrap() + b.as_u64().unwrap()));
                }
                (Some(Value::Array(mut a)), Value::Array(b)) => {
                    for x in b {
                        if a.len() < 16 {
                            a.push(x.clone());
                        }
                    }
                    self.coverage.insert(k, Value::Array(a));
                }
                (Some(Value::Bool(a)), Value::Bool(b)) => {
                    self.coverage.insert(k, json!(a && *b));
                }
                (Some(_), _) => {}
                (None, _) => {
                    self.coverage.insert(k, v);
                }
            }
        }
        for a in other.assumptions {
            self.assume(a);
        }
        for k in other.order {
            let v = other.violations[&k].clone();
            match self.violations.get_mut(&k) {
                Some(mine) => mine.count += v.count,
                None => {
                    self.order.push(k.clone());
                    self.violations.insert(k, v);
                }
            }
        }
    }
}

/// known_findings.txt: `open: property=<id> key=<signature> <text>` / `fixed: property=<id> <commit> <text>`
pub struct KnownFindings {
    pub open: Vec<(String, String, String)>,
}

impl KnownFindings {
    pub fn load(path: &std::path::Path) -> KnownFindings {
        let mut open = vec![];
        if let Ok(s) = std::fs::read_to_string(path) {
            for line in s.lines() {
                let line = line.trim();
                if let Some(rest) = line.strip_prefix("open:") {
                    let mut prop = None;
                    let mut key = None;
                    let mut text = vec![];
                    for tok in rest.split_whitespace() {
                        if let Some(p) = tok.strip_prefix("property=") {
                            if prop.is_none() {
                                prop = Some(p.to_owned());
                                continue;
                            }
                        }
                        if let Some(k) = tok.strip_prefix("key=") {
                            if key.is_none() {
                                key = Some(k.to_owned());
                                continue;
                            }
                        }
                        text.push(tok);
                    }
                    if let (Some(p), Some(k)) = (prop, key) {
                        open.push((p, k, text.join(" ")));
                    }
                }
            }
        }
        KnownFindings { open }
    }

    pub fn is_open(&self, prop: &str, sig: &str) -> Option<&str> {
        self.open
            .iter()
            .find(|(p, k, _)| p == prop && k == sig)
            .map(|(_, _, t)| t.as_str())
    }
}

pub fn fnv64(s: &str) -> u64 {
    let mut h: u64 = 0xcbf29ce484222325;
    for b in s.bytes() {
        h ^= b as u64;
        h = h.wrapping_mul(0x100000001b3);
    }
    h
}

/// Finishes a run: writes the evidence file, prints KNOWN-FINDING / VIOLATION lines, returns exit code.
pub fn finish(ctx: &Ctx, mut rep: Report) -> i32 {
    let known = KnownFindings::load(&ctx.verif_dir.join("known_findings.txt"));
    let mut new_violations = 0;
    let mut lines = vec![];
    let mut known_hits = vec![];
    for v in rep.violations() {
        if let Some(text) = known.is_open(&ctx.id, &v.signature) {
            lines.push(format!(
                "KNOWN-FINDING: property={} key={} cases={} {} [{}]",
                ctx.id, v.signature, v.count, text, v.detail
            ));
            known_hits.push(json!({"key": v.signature, "cases": v.count, "example": v.replay}));
        } else {
            new_violations += 1;
            let dir = ctx.verif_dir.join("replays").join(&ctx.id);
            let _ = std::fs::create_dir_all(&dir);
            let path = dir.join(format!("{:016x}.json", fnv64(&v.signature)));
            let doc = json!({
                "property": ctx.id,
                "signature": v.signature,
                "detail": v.detail,
                "cases_with_this_signature": v.count,
                "case": v.replay,
            });
            let _ = std::fs::write(&path, serde_json::to_string_pretty(&doc).unwrap());
            lines.push(format!(
                "VIOLATION property={} replay={}",
                ctx.id,
                path.display()
            ));
            lines.push(format!(
                "  signature={} cases={} detail={}",
                v.signature, v.count, v.detail
            ));
        }
    }
    if !known_hits.is_empty() {
        rep.coverage
            .insert("known_findings_hit".into(), Value::Array(known_hits));
    }
    let wall = ctx.start.elapsed().as_secs_f64();
    if !rep.coverage.contains_key("exhaustive") {
        rep.coverage.insert("exhaustive".into(), json!(true));
    }
    let ev = json!({
        "property_id": ctx.id,
        "tier": ctx.tier.name(),
        "seed": ctx.seed,
        "level": rep.level,
        "coverage": Value::Object(rep.coverage.clone()),
        "assumptions": rep.assumptions,
        "wall_s": (wall * 1000.0).round() / 1000.0,
        "violations": new_violations,
    });
    let evdir = ctx.verif_dir.join("evidence");
    let _ = std::fs::create_dir_all(&evdir);
    let evpath = evdir.join(format!("{}.json", ctx.id));
    if let Err(e) = std::fs::write(&evpath, serde_json::to_string_pretty(&ev).unwrap() + "\n") {
        eprintln!("cannot write evidence {}: {}", evpath.display(), e);
        return 2;
    }
    for l in &lines {
        println!("{}", l);
    }
    let summary: Vec<String> = rep
        .coverage
        .iter()
        .filter(|(_, v)| v.is_number() || v.is_boolean())
        .map(|(k, v)| format!("{}={}", k, v))
        .collect();
    println!(
        "{} {} tier={} wall={:.1}s violations={} {}",
        if new_violations == 0 { "PASS" } else { "FAIL" },
        ctx.id,
        ctx.tier.name(),
        wall,
        new_violations,
        summary.join(" ")
    );
    if new_violations == 0 {
        0
    } else {
        1
    }
}

thread_local! {
    static LAST_PANIC: std::cell::RefCell<Option<String>> = const { std::cell::RefCell::new(None) };
    static QUIET: std::cell::Cell<bool> = const { std::cell::Cell::new(false) };
}

/// Installs a panic hook that stays silent for panics raised inside `catch_panic` and remembers
/// message + location so that a violation signature can name the call site.
pub fn install_panic_hook() {
    let default = std::panic::take_hook();
    std::panic::set_hook(Box::new(move |info| {
        let msg = if let Some(s) = info.payload().downcast_ref::<&str>() {
            (*s).to_owned()
        } else if let Some(s) = info.payload().downcast_ref::<String>() {
            s.clone()
        } else {
            "<non-string panic>".to_owned()
        };
        let loc = info
            .location()
            .map(|l| format!("{}:{}", l.file(), l.line()))
            .unwrap_or_default();
        LAST_PANIC.with(|p| *p.borrow_mut() = Some(format!("{} @ {}", msg, loc)));
        if !QUIET.with(|q| q.get()) {
            default(info);
        }
    }));
}

/// Runs `f`, turning a panic into `Err(message @ file:line)`.
pub fn catch_panic<R>(f: impl FnOnce() -> R) -> Result<R, String> {
    let prev = QUIET.with(|q| q.replace(true));
    let r = std::panic::catch_unwind(std::panic::AssertUnwindSafe(f));
    QUIET.with(|q| q.set(prev));
    r.map_err(|_| {
        LAST_PANIC
            .with(|p| p.borrow_mut().take())
            .unwrap_or_else(|| "panic".into())
    })
}

/// strips line numbers from a "file:line" location so a signature survives unrelated edits
pub fn panic_site(msg: &str) -> String {
    let (m, loc) = match msg.rsplit_once(" @ ") {
        Some((m, l)) => (m, l),
        None => (msg, ""),
    };
    let file = loc.rsplit_once(':').map(|(f, _)| f).unwrap_or(loc);
    let file = file.rsplit('/').next().unwrap_or(file);
    let m: String = m
        .chars()
        .filter(|c| !c.is_ascii_digit())
        .take(48)
        .map(|c| if c.is_alphanumeric() { c } else { '_' })
        .collect();
    format!("{}:{}", file, m)
}
