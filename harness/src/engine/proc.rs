//! E-PROC: the harness binary re-executed as a child with a fully specified environment.
//! Children print one JSON document per line; `{"kind":"violation",…}` and `{"kind":"stat",…}`.

use serde_json::Value;
use std::{
    io::Read,
    path::Path,
    process::{Command, Stdio},
    time::{Duration, Instant},
};

pub struct ChildOut {
    pub status: Option<i32>,
    pub stdout: Vec<u8>,
    pub stderr: Vec<u8>,
    pub timed_out: bool,
}

impl ChildOut {
    pub fn json_lines(&self) -> Vec<Value> {
        String::from_utf8_lossy(&self.stdout)
            .lines()
            .filter_map(|l| serde_json::from_str::<Value>(l).ok())
            .collect()
    }
}

/// Runs `exe child <name> args…` with exactly the given environment (plus PATH), waits with a timeout.
pub fn run_child(exe: &Path, name: &str, args: &[String], env: &[(String, String)], timeout: Duration) -> ChildOut {
    run_child_guarded(exe, name, args, env, timeout, &|| false)
}

static CHILD_SEQ: std::sync::atomic::AtomicUsize = std::sync::atomic::AtomicUsize::new(0);

/// like `run_child`; the worker is also killed (and reported as timed out) as soon as `abort()` says so
pub fn run_child_guarded(exe: &Path, name: &str, args: &[String], env: &[(String, String)], timeout: Duration, abort: &dyn Fn() -> bool) -> ChildOut {
    let mut cmd = Command::new(exe);
    cmd.arg("child").arg(name).args(args);
    cmd.env_clear();
    cmd.env("PATH", std::env::var("PATH").unwrap_or_default());
    cmd.env("RUST_BACKTRACE", "0");
    // the worker's scratch lives below this process's root: one clean-up covers both
    let sub = super::sandbox::scratch_root().join(format!("w{}", CHILD_SEQ.fetch_add(1, std::sync::atomic::Ordering::Relaxed)));
    cmd.env("VERIF_SCRATCH_ROOT", &sub);
    for (k, v) in env {
        cmd.env(k, v);
    }
    cmd.stdin(Stdio::null()).stdout(Stdio::piped()).stderr(Stdio::piped());
    let mut child = match cmd.spawn() {
        Ok(c) => c,
        Err(e) => {
            return ChildOut { status: None, stdout: vec![], stderr: format!("spawn failed: {}", e).into_bytes(), timed_out: false }
        }
    };
    let mut so = child.stdout.take().unwrap();
    let mut se = child.stderr.take().unwrap();
    let t1 = std::thread::spawn(move || {
        let mut b = vec![];
        let _ = so.read_to_end(&mut b);
        b
    });
    let t2 = std::thread::spawn(move || {
        let mut b = vec![];
        let _ = se.read_to_end(&mut b);
        b
    });
    let start = Instant::now();
    let mut timed_out = false;
    let status = loop {
        match child.try_wait() {
            Ok(Some(s)) => break s.code(),
            Ok(None) => {
                if start.elapsed() > timeout || abort() {
                    let _ = child.kill();
                    let _ = child.wait();
                    timed_out = true;
                    break None;
                }
                std::thread::sleep(Duration::from_millis(2));
            }
            Err(_) => break None,
        }
    };
    ChildOut { status, stdout: t1.join().unwrap_or_default(), stderr: t2.join().unwrap_or_default(), timed_out }
}

pub fn emit(v: Value) {
    println!("{}", v);
}
