//! verif-harness <ID> quick|thorough      run the check of one property
//! verif-harness <ID> replay <file>       re-execute a recorded violation (twice, must agree)
//! verif-harness child <name> args…       E-PROC child entry points

mod engine;
mod props;

use engine::{Ctx, Tier};
use std::{path::PathBuf, time::{Duration, Instant}};

fn main() {
    let args: Vec<String> = std::env::args().collect();
    if args.len() < 3 {
        eprintln!("usage: verif-harness <ID> quick|thorough | <ID> replay <file> | child <name> …");
        std::process::exit(2);
    }
    engine::install_panic_hook();
    if cfg!(feature = "background_rotation") {
        // the hooks count the library's rotation threads (quiescence before every observation)
        engine::hooks::ensure_installed();
    }
    if args[1] == "child" {
        let code = props::child(&args[2], &args[3..]).unwrap_or_else(|| {
            eprintln!("unknown child {}", args[2]);
            2
        });
        engine::sandbox::cleanup_scratch();
        std::process::exit(code);
    }
    if args[1] == "selftest" {
        match engine::fsfault::self_test() {
            Ok(()) => println!("fsfault self-test ok"),
            Err(e) => {
                eprintln!("fsfault self-test FAILED: {}", e);
                std::process::exit(2);
            }
        }
        std::process::exit(0);
    }
    // scratch roots of harness processes that no longer exist (killed, crashed) are removed first
    engine::sandbox::sweep_stale();
    let id = args[1].clone();
    let verif_dir = PathBuf::from(std::env::var("VERIF_DIR").unwrap_or_else(|_| "/verif".into()));
    if args[2] == "replay" {
        let path = args.get(3).expect("replay needs a file");
        let doc: serde_json::Value =
            serde_json::from_str(&std::fs::read_to_string(path).expect("read replay file")).expect("parse replay file");
        let case = if doc.get("case").is_some() { doc["case"].clone() } else { doc.clone() };
        let r1 = props::replay(&id, &case);
        let r2 = props::replay(&id, &case);
        engine::sandbox::cleanup_scratch();
        match (r1, r2) {
            (Some(a), Some(b)) => {
                if a != b {
                    eprintln!("NONDETERMINISTIC replay: first {:?}, second {:?}", a, b);
                    std::process::exit(2);
                }
                match a {
                    Ok(()) => {
                        println!("replay passes: the recorded case no longer violates {}", id);
                        std::process::exit(0);
                    }
                    Err(e) => {
                        println!("VIOLATION property={} replay={}", id, path);
                        println!("  {}", e);
                        std::process::exit(1);
                    }
                }
            }
            _ => {
                eprintln!("no replay for {}", id);
                std::process::exit(2);
            }
        }
    }
    let tier = match args[2].as_str() {
        "quick" => Tier::Quick,
        "thorough" => Tier::Thorough,
        other => {
            eprintln!("unknown tier {}", other);
            std::process::exit(2);
        }
    };
    let seed = std::env::var("VERIF_SEED").ok().and_then(|s| s.parse().ok()).unwrap_or(0u64);
    let cap = std::env::var("VERIF_CAP_S")
        .ok()
        .and_then(|s| s.parse().ok())
        .unwrap_or(tier.pick(150u64, 1500u64));
    let ctx = Ctx {
        id: id.clone(),
        tier,
        seed,
        start: Instant::now(),
        cap: Duration::from_secs(cap),
        verif_dir,
        exe: std::env::current_exe().expect("current_exe"),
    };
    // the library prints diagnostics with println! (e.g. "err compressing"); keep our stdout clean
    let saved = unsafe {
        use std::io::Write;
        let _ = std::io::stdout().flush();
        let saved = libc::dup(1);
        let null = libc::open(b"/dev/null\0".as_ptr() as *const libc::c_char, libc::O_WRONLY);
        if null >= 0 {
            libc::dup2(null, 1);
            libc::close(null);
        }
        saved
    };
    let rep = std::panic::catch_unwind(std::panic::AssertUnwindSafe(|| props::run(&ctx)));
    unsafe {
        use std::io::Write;
        let _ = std::io::stdout().flush();
        if saved >= 0 {
            libc::dup2(saved, 1);
            libc::close(saved);
        }
    }
    engine::sandbox::cleanup_scratch();
    match rep {
        Ok(Some(rep)) => std::process::exit(engine::finish(&ctx, rep)),
        Ok(None) => {
            eprintln!("no check for {}", id);
            std::process::exit(2);
        }
        Err(_) => {
            eprintln!("MACHINERY FAILURE: the harness itself panicked while checking {} (not a verdict)", id);
            std::process::exit(2);
        }
    }
}
