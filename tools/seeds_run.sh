#!/bin/bash
# tools/seeds_run.sh [seed-dir-name …]    (default: every /verif/seeded/* whose property has a check)
# Runs each seeded change against the *quick* check of its property in a scratch copy
# (/tmp/seedrun: a worktree of /repo HEAD + a copy of the harness pointing at it), so /repo is not
# touched and other work can continue.  Writes /verif/seeded/<name>/detect.json.
set -u
SCR=${SCR:-/tmp/seedrun}
HEAD=$(git -C /repo rev-parse HEAD)
mkdir -p $SCR
if [ ! -d $SCR/repo ]; then git -C /repo worktree add -q --detach $SCR/repo "$HEAD" || exit 2; fi
git -C $SCR/repo checkout -q --detach "$HEAD"; git -C $SCR/repo checkout -q -- .
mkdir -p $SCR/verif
rsync -a --delete --exclude target --exclude 'target-*' --exclude evidence --exclude replays --exclude seeded --exclude .git /verif/ $SCR/verif/
sed -i "s#path = \"/repo\"#path = \"$SCR/repo\"#" $SCR/verif/harness/Cargo.toml
NAMES="$@"
if [ -z "$NAMES" ]; then NAMES=$(ls /verif/seeded); fi
TIER="${SEED_TIER:-quick}"
for name in $NAMES; do
  d=/verif/seeded/$name
  id=$(python3 -c "import json;print(json.load(open('$d/meta.json'))['property'])")
  ids="${SEED_IDS:-$id}"
  if ! grep -q "\"$id\" =>" /verif/harness/src/props/mod.rs; then echo "skip $name (no check for $id yet)"; continue; fi
  git -C $SCR/repo checkout -q -- .
  if ! git -C $SCR/repo apply "$d/patch.diff"; then echo "$name: patch does not apply"; continue; fi
  res="["
  for cid in $ids; do
    out=$(cd $SCR/verif && ./run.sh $cid $TIER 2>&1); rc=$?
    sigs=$(echo "$out" | grep -E "^  signature=" | sed 's/^  signature=//; s/ cases=.*//' | head -5 | tr '\n' ' ')
    echo "$name [$cid $TIER] exit=$rc $sigs"
    res="$res{\"check\": \"$cid\", \"tier\": \"$TIER\", \"exit\": $rc, \"signatures\": \"$sigs\"},"
  done
  res="${res%,}]"
  python3 - "$d" "$res" "$HEAD" <<'PY'
import json,sys
d,res,head=sys.argv[1:4]
json.dump({"repo_head": head, "runs": json.loads(res), "detected": any(r["exit"]==1 for r in json.loads(res))}, open(d+"/detect.json","w"), indent=1)
PY
  git -C $SCR/repo checkout -q -- .
done
