cd /verif
SEED_IDS="C01 C03" tools/seeds_run.sh C01-r2m1
SEED_IDS="C01 C15" tools/seeds_run.sh C01-r3m1
SEED_IDS="C02 C15" tools/seeds_run.sh C02-r2m1
SEED_IDS="C03 C15" tools/seeds_run.sh C03-r3m2
SEED_IDS="C04 C14" tools/seeds_run.sh C04-r2m1
SEED_IDS="C05 C14" tools/seeds_run.sh C05-m2
SEED_IDS="C05 C08" tools/seeds_run.sh C05-r3m2
SEED_IDS="C07 C14" tools/seeds_run.sh C07-r2m2
SEED_IDS="C17 C14" tools/seeds_run.sh C17-r3m1
SEED_IDS="C05 C07" tools/seeds_run.sh C05-r4m1
SEED_IDS="C07 C08" tools/seeds_run.sh C07-r4m2
SEED_IDS="C11 C10" tools/seeds_run.sh C11-r4m2
SEED_IDS="C14 C20" tools/seeds_run.sh C14-r4m1
