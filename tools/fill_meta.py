#!/usr/bin/env python3
"""Fills summary / breaks / needs_to_manifest of /verif/seeded/*/meta.json from the sub-agent's notes.md."""
import json, glob, os, re
for d in sorted(glob.glob("/verif/seeded/*")):
    mp = d + "/meta.json"
    meta = json.load(open(mp))
    notes = open(d + "/notes.md").read() if os.path.exists(d + "/notes.md") else ""
    # split into sections by markdown headings / bold labels
    secs = re.split(r"\n(?=#{1,3} |\*\*[A-Z])", "\n" + notes)
    title = next((l.lstrip("# ").strip() for l in notes.splitlines() if l.startswith("#")), "")
    def pick(words):
        for s in secs:
            head = s.strip().splitlines()[0].lower() if s.strip() else ""
            if any(w in head for w in words):
                body = " ".join(x.strip() for x in s.strip().splitlines()[1:] if x.strip())
                if not body:
                    body = s.strip().splitlines()[0]
                return re.sub(r"\s+", " ", body)[:700]
        return ""
    needs = pick(["need", "manifest", "trigger", "when it shows", "condition"])
    breaks = pick(["clause", "break", "property"])
    change = pick(["change", "what", "mutation", "patch"])
    meta["summary"] = title[:200]
    if change: meta["change"] = change
    if breaks: meta["breaks"] = breaks
    if needs: meta["needs_to_manifest"] = needs
    elif not meta.get("needs_to_manifest"):
        m = re.search(r"[^.\n]*\b(needs?|requires?|only (when|if|for))\b[^.\n]*\.", notes, re.I)
        meta["needs_to_manifest"] = re.sub(r"\s+", " ", m.group(0)).strip()[:500] if m else "see notes.md"
    json.dump(meta, open(mp, "w"), indent=1)
missing = [os.path.basename(d) for d in glob.glob("/verif/seeded/*") if json.load(open(d + "/meta.json")).get("needs_to_manifest") in ("", "see notes.md")]
print("filled; without an extracted 'needs' paragraph:", missing)
