#!/usr/bin/env python3
"""Copies verified seeded changes from /tmp/seed-out/<ID>/mN into /verif/seeded/<ID>-mN/ with meta.json."""
import json, os, shutil, sys, glob, re
import sys
SRC = sys.argv[1] if len(sys.argv) > 1 else "/tmp/seed-out"
SUFFIX = sys.argv[2] if len(sys.argv) > 2 else ""
DST = "/verif/seeded"
for d in sorted(glob.glob(SRC + "/C*/m*")):
    pid = d.split("/")[-2]; m = d.split("/")[-1]
    vj = os.path.join(d, "verify.json")
    if not os.path.exists(vj): continue
    v = json.load(open(vj))
    ok = v["applies"] and v["suite_ok"] and v["demo_fails_with_change"] and v["demo_passes_without_change"]
    if not ok:
        print("NOT KEPT", d, v); continue
    out = os.path.join(DST, "%s-%s%s" % (pid, SUFFIX, m))
    os.makedirs(out, exist_ok=True)
    for f in ["patch.diff", "demo_test.rs", "demo.rs", "notes.md", "patch.orig.diff"]:
        if os.path.exists(os.path.join(d, f)): shutil.copy(os.path.join(d, f), os.path.join(out, f))
    notes = open(os.path.join(d, "notes.md")).read() if os.path.exists(os.path.join(d, "notes.md")) else ""
    meta_path = os.path.join(out, "meta.json")
    meta = json.load(open(meta_path)) if os.path.exists(meta_path) else {}
    meta.update({
        "property": pid,
        "origin": "independent sub-agent given only the property text and a scratch worktree",
        "breaks": "see notes.md (written by the sub-agent)",
        "needs_to_manifest": meta.get("needs_to_manifest", ""),
        "confirmed_by_me": {
            "how": "tools/verify_seed.sh in scratch worktree /tmp/vseed-wt: git apply on /repo HEAD, cargo nextest run --workspace --no-fail-fast --offline, demo with and without the change",
            "repo_head": v["repo_head"],
            "suite": v["suite_summary"] + " (only " + v["suite_failures"] + " fails, as on the unchanged tree)",
            "demo_fails_with_change": v["demo_fails_with_change"],
            "demo_passes_without_change": v["demo_passes_without_change"],
        },
        "rebased": os.path.exists(os.path.join(d, "patch.orig.diff")),
    })
    json.dump(meta, open(meta_path, "w"), indent=1)
    print("kept", out)
