#!/usr/bin/env python3
"""Regenerates /verif/MANIFEST.json from the table below and validates it (and any evidence files)."""
import json, os, sys, glob
HERE = os.path.dirname(os.path.dirname(os.path.abspath(__file__)))
ALL = ["C%02d" % i for i in range(1, 21)]

# id -> (category, engine, technique, level text, level note, design ref)
CHECKS = {
 "C01": ("model_checking", "E-ENUM",
         "bounded exhaustive enumeration of configurations x probes against a reference router",
         "Every configuration of a bounded domain (<=3 quick / <=4 thorough loggers from a name universe built to collide, every declaration order, "
         "levels, additive flags, appender lists with duplicates) x every target x 5 levels is run through the real Logger::log with counting "
         "appenders and compared with an independent reference router. Exhaustive inside the bound, so shape-dependent routing bugs "
         "(prefix off-by-one, dropped sort, inverted additive) cannot hide; nothing is sampled.",
         "Trusted: the reference router in harness/src/props/routing.rs; names outside the universe {a,ab,a::b,a::b::c,a::c,b} and more loggers than the bound are not covered.",
         "DESIGN.md §5 C01"),
}
PENDING_REASON = "check not built yet in this revision of /verif (planned, see DESIGN.md §5); not claimed until it exists"

def main():
    checks = []
    for pid in ALL:
        if pid not in CHECKS: continue
        cat, engine, tech, text, note, ref = CHECKS[pid]
        checks.append({
            "property_id": pid,
            "quick_cmd": "./run.sh %s quick" % pid,
            "thorough_cmd": "./run.sh %s thorough" % pid,
            "evidence_file": "/verif/evidence/%s.json" % pid,
            "replay_cmd_template": "./run.sh %s replay {path}" % pid,
            "engine": engine,
            "level_claimed": {"category": cat, "text": text, "design_ref": ref},
            "level_note": note,
            "technique": tech,
        })
    hooks_commits = []
    try:
        import subprocess
        out = subprocess.run(["git", "-C", "/repo", "log", "--format=%H %s"], capture_output=True, text=True).stdout
        hooks_commits = [l.split()[0] for l in out.splitlines() if " verif hooks:" in " " + l]
        hooks_commits.reverse()
    except Exception:
        pass
    m = {
        "version": 1,
        "setup_cmd": "./setup.sh",
        "hooks": {
            "guard": "--cfg log4rs_verif",
            "enable": "RUSTFLAGS='--cfg log4rs_verif' (exported by run.sh/setup.sh; the harness crate path-depends on /repo)",
            "baseline_off_cmd": "cd /repo && cargo nextest run --workspace --no-fail-fast --offline",
            "source_commits": hooks_commits,
            "add_only": True,
        },
        "engines": [
            {"name": "E-ENUM", "path": "harness/src/props", "kind_free_text": "bounded exhaustive enumeration of inputs/configurations through the real API against a reference model",
             "serves_properties": [p for p in ALL if p in CHECKS and "E-ENUM" in CHECKS[p][1]]},
            {"name": "E-HIST", "path": "harness/src/engine/hist.rs", "kind_free_text": "explicit-state BFS (stateright) over a reference model with per-transition conformance replay on the real implementation",
             "serves_properties": [p for p in ALL if p in CHECKS and "E-HIST" in CHECKS[p][1]]},
            {"name": "E-SCHED", "path": "harness/src/engine/sched.rs", "kind_free_text": "controlled scheduler: preemption-bounded stateless DFS over real threads at shim lock/ArcSwap points",
             "serves_properties": [p for p in ALL if p in CHECKS and "E-SCHED" in CHECKS[p][1]]},
            {"name": "E-FAULT", "path": "harness/src/engine/fsfault.rs", "kind_free_text": "libc interposition: every mutating file-system call is a crash point and a fault-injection point",
             "serves_properties": [p for p in ALL if p in CHECKS and "E-FAULT" in CHECKS[p][1]]},
            {"name": "E-PROC", "path": "harness/src/engine/proc.rs", "kind_free_text": "complete child-process matrix for process-global state (log facade, env, TZ, tty)",
             "serves_properties": [p for p in ALL if p in CHECKS and "E-PROC" in CHECKS[p][1]]},
        ],
        "checks": checks,
        "not_applicable": [{"property_id": p, "reason": PENDING_REASON} for p in ALL if p not in CHECKS],
        "notes": "All checks: ./run.sh <ID> quick|thorough|replay <file>. Exit 0 held / only known findings (known_findings.txt), 1 VIOLATION, 2 machinery failure. See DESIGN.md.",
    }
    m["engines"] = [e for e in m["engines"] if e["serves_properties"]]
    path = os.path.join(HERE, "MANIFEST.json")
    json.dump(m, open(path, "w"), indent=1)
    open(path, "a").write("\n")
    try:
        import jsonschema
        jsonschema.validate(m, json.load(open("/root/.vp/MANIFEST.schema.json")))
        es = json.load(open("/root/.vp/EVIDENCE.schema.json"))
        for f in sorted(glob.glob(os.path.join(HERE, "evidence", "*.json"))):
            jsonschema.validate(json.load(open(f)), es)
        print("MANIFEST.json valid; %d checks; evidence files valid" % len(checks))
    except ImportError:
        print("jsonschema not importable with this python; written without validation")

main()
