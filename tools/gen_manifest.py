#!/usr/bin/env python3
"""Regenerates /verif/MANIFEST.json from the table below and validates it (and any evidence files)."""
import json, os, sys, glob
HERE = os.path.dirname(os.path.dirname(os.path.abspath(__file__)))
ALL = ["C%02d" % i for i in range(1, 21)]

# id -> (category, engine, technique, level text, level note, design ref)
CHECKS = {
 "C01": ("model_checking", "E-ENUM",
         "bounded exhaustive enumeration of configurations x probes against a reference router",
         "Every configuration of a bounded domain (<=3 quick / <=4 thorough loggers from a name universe built to collide, every declaration order, "
         "levels, additive flags, appender lists with duplicates) x every target x 5 levels is run through the real Logger::log with counting "
         "appenders and compared with an independent reference router. Exhaustive inside the bound, so shape-dependent routing bugs "
         "(prefix off-by-one, dropped sort, inverted additive) cannot hide; nothing is sampled.",
         "Trusted: the reference router in harness/src/props/routing.rs; names outside the universe {a,ab,a::b,a::b::c,a::c,b} and more loggers than the bound are not covered.",
         "DESIGN.md §5 C01"),
 "C02": ("model_checking", "E-ENUM + E-PROC",
         "bounded exhaustive configuration x probe sweep, plus exhaustive set_config sequences in child processes checked against a reference model",
         "(a) the complete C01 sweep judged on Log::enabled() and Logger::max_log_level(); (b) one child process per entry point (init_config, "
         "init_config_with_err_handler, init_raw_config, init_file) x 6 initial configurations whose most verbose level sits at different tree positions; "
         "children with a Handle apply every sequence of depth 3 (thorough 4) of set_config over the 6 configurations and after every step compare "
         "log::max_level() with the model and log every (target, level) probe through log!/log_enabled!. History-dependent bugs (max level only raised / only lowered / not refreshed) "
         "need a particular up-down sequence, which exhaustive sequence enumeration reaches.",
         "Trusted: reference router; the log crate's macros. init_raw_config/init_file give no Handle, so only their initial installation is checked here (reloader: C15).",
         "DESIGN.md §5 C02"),
 "C03": ("model_checking", "E-ENUM",
         "bounded exhaustive enumeration of filter chains x failing/healthy appenders against a reference chain interpreter",
         "All chains over {Accept,Neutral,Reject} up to length 6 (8) on one appender, the real ThresholdFilter for 6 thresholds x 5 levels alone and combined, and all "
         "assignments of chains (<=3, thorough <=4) and failing/healthy flags to 3-4 appenders of one logger chain; scripted filters log every consultation, the error handler "
         "logs every call; per appender the consultation prefix, delivery and handler calls must equal the reference, twice in a row.",
         "Trusted: reference interpreter in c03.rs; filters are stateless.", "DESIGN.md §5 C03"),
 "C09": ("model_checking", "E-ENUM + E-PROC",
         "bounded exhaustive enumeration of pattern ASTs printed to syntax and compared with a reference renderer (bytes and style events)",
         "Every AST of four generator groups (all formatters and aliases x specs, containers around every list of <=2 leaves, containers nested to depth 3/4, every pair/triple of "
         "top-level items incl. every escape form) is printed, compiled by the real parser and encoded for 5 records on a named and an unnamed thread; bytes and highlight "
         "style events must equal the reference renderer, which interprets the AST and never consults the parser. Both build profiles ({D}/{R}) in the thorough tier; zone handling in TZ children.",
         "Trusted: reference renderer; dates limited to %Y/%z/%+ (bracketed by clock reads); highlight colours not compared.", "DESIGN.md §5 C09"),
 "C10": ("model_checking", "E-ENUM",
         "bounded exhaustive enumeration of format specs x texts x write splits x short-write sinks against the truncate-then-pad law",
         "Every spec (min,max in none/0..5(6), 14 fill characters incl. multi-byte and syntax characters, 3 alignments) x every text over {a,é,€,😀,U+0301} up to length 4 (5) x every "
         "3-way cut of the text into write_str pieces x sinks accepting all/1/2/3 bytes per write, plus all pairs of small specs nested through groups and highlight; output must be "
         "byte-identical to pad(take_chars(text,M),m). For m>M only what the property promises (valid UTF-8, at most M characters) is checked.",
         "Trusted: the law as implemented in Spec::apply.", "DESIGN.md §5 C10"),
 "C11": ("model_checking", "E-ENUM",
         "exhaustive enumeration of all strings over the syntax alphabet up to a length bound in worker processes, plus edit neighbourhoods and error classes",
         "All 49.7M (quick, length<=6; thorough 943M, length<=7) strings over a 19-symbol alphabet of every syntax character, alone and after the prefix x{l}, are compiled and encoded under "
         "catch_unwind in 16 worker processes (an abort is a finding); all single (double) edits of 12 documented patterns; 2854 definitely malformed patterns must show an {ERROR: marker with "
         "the preceding text rendered; every single-directive strftime format with utc/local; widths of 1..25 digits.",
         "Trusted: chrono's StrftimeItems as the judge of which date formats are invalid; encoding only for widths <= 64 (the property's sanity bound).", "DESIGN.md §5 C11"),
 "C13": ("model_checking", "E-ENUM",
         "bounded exhaustive enumeration of builder inputs against a reference validity / lossy model, every returned Config installed and logged through",
         "All logger names over {a,b,:} up to length 7 (9) and all builder inputs (appender sequences over {x,y} with duplicates, <=3 loggers over 5 names incl. malformed and repeated, reference "
         "lists over {x,y,z-dangling} on root and loggers): strict success iff well-formed, reported names = offending names (no innocent, none missing), lossy result = valid items in order, "
         "and every returned Config goes through Logger::new and is logged through with deliveries checked by the reference router.",
         "Trusted: well-formedness read literally from the property text (so '::a' is well-formed).", "DESIGN.md §5 C13"),
 "C14": ("model_checking", "E-ENUM",
         "bounded exhaustive enumeration of logical configurations rendered into three formats and compared behaviourally with the programmatic configuration; exhaustive single-fault injection into documents",
         "3192 (thorough: 8k+) logical configurations (capture/file/rolling_file appenders with every optional field present or defaulted: append, encoder kind/pattern/json, policy kind, trigger size/time/onstartup(min_size), "
         "roller delete/fixed_window(base), 0-2 threshold filters; loggers with additive absent/true/false; root level present/defaulted; refresh_rate) are printed by harness printers into YAML, JSON and TOML, loaded by the real "
         "load_config_file and driven with 12 probe records next to the Config built from the same value through the public builders: capture deliveries and produced files must be identical and equal to the routing reference. "
         "Every permutation of every map with 2-4 keys; every single injection (unknown key per section, wrong type / degenerate number per scalar, unknown kinds, dangling names) x 3 formats: strict pipeline fails, lossy loading "
         "rejects the document or keeps every healthy part working (a broken filter is dropped, its appender keeps the others); file extension selects the parser; never a panic.",
         "Trusted: the harness printers and the routing reference; timestamps/thread ids are normalised; console appenders are C18's.", "DESIGN.md §5 C14"),
 "C15": ("model_checking", "E-SCHED + E-HIST + E-PROC",
         "preemption-bounded exhaustive schedule exploration of real threads for the swap; explicit-state exploration of a reloader model with every poll-terminated history replayed on the real reloader thread",
         "Swap atomicity: 1-2 logging threads x 1-2 records against 1-2 threads calling Handle::set_config (configurations with different appender table sizes, one that switches the probed level off), "
         "scheduling points at every ArcSwap load/store (cfg-guarded shim) and at every delivery; all schedules with at most 2-3 (3-4) preemptions; each record's delivery set must be the complete route of a "
         "configuration that may be in force during the call (from the recorded happens-before). Re-entrancy: appender/filter calling set_config at every fan-out position. Reloader: BFS over the model "
         "(file text A/B/other rate/no rate/syntax error/missing, mtime changed, last text seen, config in force, rate) with write/touch/delete/poll to depth 5 (7) with deduplication and every history to depth 4 (5) "
         "without; each poll-terminated path runs in its own child on the real init_file + reloader thread stepped through the guarded sleep hook; compared: configuration in force, appender constructions, next sleep duration.",
         "Trusted: sequentially consistent hand-over at points (arc_swap internals are outside the model). After a file without refresh_rate is applied the reloader is expected to stop.", "DESIGN.md §5 C15"),
 "C16": ("model_checking", "E-PROC + E-ENUM + E-HIST",
         "exhaustive instant grids per time zone through the guarded schedule computation against a naive-local-time reference, plus exhaustive arrival-class sequences through the real appender under a driven clock",
         "One child per zone (UTC, +5:30, +5:45, New_York, Berlin, Lord_Howe (30-minute DST), Havana and Sao_Paulo (midnight transitions), Apia (skipped day)). Per zone: every second within 2 min (2 h) of every "
         "offset transition 2010-2030, every minute (20 s) of the transition days, calendar corners, a two-year grid; x 7 units x n in {1,2,3,5,7,12,24,60,100} x modulate: never a panic, next > now, and wherever the "
         "offset does not change between now and next, next equals the reference boundary. Sequences: every sequence of arrival classes {E-1s,E,E+1s,E+unit+1s} of length 3 (4) through RollingFileAppender with the real "
         "TimeTrigger (fires on first arrival >= E, record on the right side of the rotation, reschedules into the future, random delay within its range).",
         "Trusted: reference_next() on naive date-times; tzdata of the sandbox; n >= 1.", "DESIGN.md §5 C16"),
 "C18": ("model_checking", "E-PROC + E-ENUM",
         "complete child-process matrix over environment x terminal x options with byte-level judgement, plus exhaustive enumeration of all styles of AnsiWriter",
         "All 432 cells of NO_COLOR x CLICOLOR x CLICOLOR_FORCE in {unset,0,1} x stdout/stderr x target is a pty/pipe (the other stream of the opposite kind) x tty_only on/off/absent x builder/config file; each child "
         "logs five levels through highlight and nested highlight; both streams are captured: chosen stream only, tty_only => written iff the target is a terminal, escapes iff colour is enabled by the stated precedence, "
         "every escape a well-formed SGR that decodes, reset before the line ends, stripped text equals the plain rendering. AnsiWriter over Vec<u8>: all 243 styles and all pairs of consecutive styles.",
         "Trusted: pty behaviour of the sandbox (raw mode). Windows console code is not covered.", "DESIGN.md §5 C18"),
 "C04": ("model_checking", "E-HIST + E-SCHED",
         "explicit-state BFS over a reference model with per-transition replay on the real appender, plus preemption-bounded exhaustive schedule exploration of real threads",
         "Sequential: per world (open mode, pre-existing file absent/empty/non-empty, nested directories, 1- or 3-chunk encoder) all histories of append(0|1|1023|1024|1025|2500 bytes) and reopen to depth 4 (6); "
         "every transition out of every distinct model state is replayed from scratch and the file is read back after every call. Concurrent: 2-3 real OS threads x 1-2 appends under a baton scheduler whose "
         "scheduling points are the library's own lock operations (cfg-guarded shim Mutex) and the encoder's chunk boundaries; every schedule with at most 2 (3) preemptions is executed; each returned append "
         "must already be readable, the final file must be whole records, each once, per-thread order kept. A dropped flush or a narrowed critical section needs one specific preemption, which the bound covers.",
         "Trusted: data-race freedom of safe Rust, sequentially consistent hand-over at points; more than 3 threads / more preemptions than the bound are not covered.", "DESIGN.md §5 C04"),
 "C05": ("model_checking", "E-HIST + E-SCHED",
         "explicit-state BFS over a reference model of appender+trigger+roller with per-transition replay on the real implementation, plus preemption-bounded schedule exploration",
         "Per world (7 trigger kinds incl. user-defined pre/post-processing triggers and the real time trigger under a driven clock x 7 rollers (delete, fixed window base/count incl. 0 and 1, .gz, .zst) x open mode x "
         "pre-existing file) all histories over append(0|10|1500 bytes), restart, arm, tick to depth 5 (7); after every step the decompressed directory equals the model and archives oldest->newest ++ active is a "
         "record-aligned suffix of the acknowledged stream. Concurrent writers: 2-3 threads under the baton scheduler with limits that force rotations inside the run, all schedules up to 2 (3) preemptions.",
         "Trusted: the reference model in rolling.rs; background_rotation feature not explored; truncate-mode restarts are compared with the model only.", "DESIGN.md §5 C05"),
 "C06": ("model_checking", "E-HIST",
         "explicit-state BFS over the reference model with per-transition replay; an observing Policy compares len_estimate() with the true file size at every consultation",
         "Limits N in {0,1,10,1024,1030} x pre-existing sizes {absent,0,N-1,N,N+1} x open mode; operations append(size in {0,1,N-1,N,N+1,1500}, multi-byte text) and restart, depth 5 (7); at every policy consultation "
         "len_estimate() must equal fs::metadata().len(), the policy rolls iff size > N, and the directory equals the model after every step.",
         "Trusted: reference model; nobody else writes to the file.", "DESIGN.md §5 C06"),
 "C07": ("model_checking", "E-ENUM",
         "exhaustive enumeration of roller configurations x initial directory states x roll chains against a shift-register reference with full directory snapshots",
         "9 pattern shapes (index in file name / directory / repeated / set and unset $ENV / .gz / .zst / beside the active file) x bases {0,1,3,4e9} and the corner base+count-1=u32::MAX x counts 0..4 (5) x "
         "every subset of the window as initial archives (gaps) x bystander files with near-miss names x chains of count+3 rolls; after every roll the recursive snapshot must equal the reference: "
         "rolled file gone, slot b+j = (j+1)-th newest (decompressed), nothing else created, modified or removed.",
         "Trusted: shift-register reference; the slot above a gap may keep or lose its stale archive.", "DESIGN.md §5 C07"),
 "C08": ("fault_enumeration", "E-FAULT",
         "libc interposition: every counted file-system call of every rotation is a crash point and a failing step; all continuations up to a depth follow",
         "62 scenarios (open mode x window 1..3 x plain/.gz x post-processing size trigger / pre-processing scripted trigger, each rotation of a window-filling history as target, a 1500-byte record in flight). "
         "The calls the implementation really makes are enumerated by interposing open/write/rename/unlink/mkdir/... in the harness binary: for every call k the image immediately before k (process death) is checked "
         "and restarted with every continuation; call k fails with each errno (and every later call k2 as a second fault), followed by every continuation on the same and on a restarted appender; obstacles at the top "
         "archive slot as an interposition-free fault. Oracle: managed files oldest->newest read as a gap-free suffix of the acknowledged stream and between observations only a whole file at the last window slot may vanish.",
         "Crash model = process death (log4rs never fsyncs); a failing call has no effect. Unacknowledged records may be absent, partial or present.", "DESIGN.md §5 C08"),
 "C17": ("model_checking", "E-HIST + E-SCHED",
         "explicit-state BFS over the reference model with per-transition replay, plus preemption-bounded schedule exploration of simultaneous first appends",
         "min_size in {0,1,5} x pre-existing file absent/0/min-1/min/min+1 bytes x open mode x roller; histories over append(0|1|3|6 bytes) and restart to depth 5 (7): per lifetime at most one rotation, only at the first "
         "record, iff size >= min_size; the pre-existing bytes become archive 0 and the active file starts with the first new record. Schedules: 2-3 threads issue the first appends simultaneously, all schedules up to 2 (3) preemptions.",
         "Trusted: reference model.", "DESIGN.md §5 C17"),
 "C12": ("model_checking", "E-ENUM",
         "bounded exhaustive enumeration of records over an escape-class alphabet, output re-parsed by an independent strict JSON parser; plus fault histories",
         "Every string up to length 3 (4) over 16 escape classes (quote, backslash, slash, LF, CR, TAB, NUL, U+001F, DEL, 2/3/4-byte characters, U+2028, BS, FF) in each of the 7 text "
         "fields, all pairs of fields, all 8 present/absent combinations x 5 levels x line values, MDC maps of 0-2 entries; each output must be one strict RFC 8259 object plus exactly one "
         "newline with no raw control byte, and parse back exactly. Histories on one thread: an encode cut short at every write position of a failing sink (and by a panicking Display argument) "
         "followed by a normal encode, which must still be one clean line.",
         "Trusted: the RFC 8259 parser in c12.rs. Thread names cannot contain NUL (std).", "DESIGN.md §5 C12"),
 "C19": ("model_checking", "E-ENUM",
         "bounded exhaustive enumeration of path token sequences through the public builders, observed as the location of the created file",
         "Every sequence of up to 5 (6) tokens over {$ENV{, $, {, }, A, A.B, _x, U(unset), é, 日, /, -, ENV, 9, .} is used as a path below a fresh sandbox through FileAppender (all), "
         "RollingFileAppender and FixedWindowRoller::roll (sub-lattice up to 4 (5) tokens); exactly one file must appear, at the expansion computed by a reference left-to-right scanner, "
         "and no string may panic. 11 variables incl. empty value, value with '}', value with '{}', multi-byte names.",
         "Trusted: the reference scanner; values without '$' (the property's domain).", "DESIGN.md §5 C19"),
 "C20": ("model_checking", "E-ENUM",
         "bounded exhaustive enumeration of literals through serde (YAML/JSON/TOML) against a u128 reference",
         "Numbers at every overflow threshold (2^(64-10e)-1/+0/+1, 2^63, 2^64, 10^k to 21 digits, leading zeros) x every size unit and alias in every letter-case combination x every interval unit in "
         "case variants x white-space placements x scalar forms (plain, quoted, integer; three formats), the rejected classes (negative, fractional, junk suffix, unknown unit) and humantime refresh_rate "
         "literals; exact value or error as the u128 reference says, never a wrapped value or panic. Forms the property text leaves open are accepted either way.",
         "Trusted: u128 reference. TOML cannot express integers above 2^63-1 (rejection accepted there).", "DESIGN.md §5 C20"),
}
PENDING_REASON = "check not built yet in this revision of /verif (planned, see DESIGN.md §5); not claimed until it exists"

def main():
    checks = []
    for pid in ALL:
        if pid not in CHECKS: continue
        cat, engine, tech, text, note, ref = CHECKS[pid]
        checks.append({
            "property_id": pid,
            "quick_cmd": "./run.sh %s quick" % pid,
            "thorough_cmd": "./run.sh %s thorough" % pid,
            "evidence_file": "/verif/evidence/%s.json" % pid,
            "replay_cmd_template": "./run.sh %s replay {path}" % pid,
            "engine": engine,
            "level_claimed": {"category": cat, "text": text, "design_ref": ref},
            "level_note": note,
            "technique": tech,
        })
    hooks_commits = []
    try:
        import subprocess
        out = subprocess.run(["git", "-C", "/repo", "log", "--format=%H %s"], capture_output=True, text=True).stdout
        hooks_commits = [l.split()[0] for l in out.splitlines() if " verif hooks:" in " " + l]
        hooks_commits.reverse()
    except Exception:
        pass
    m = {
        "version": 1,
        "setup_cmd": "./setup.sh",
        "hooks": {
            "guard": "--cfg log4rs_verif",
            "enable": "RUSTFLAGS='--cfg log4rs_verif' (exported by run.sh/setup.sh; the harness crate path-depends on /repo)",
            "baseline_off_cmd": "cd /repo && (cargo nextest run --workspace --no-fail-fast --offline || cargo test --workspace --no-fail-fast --offline)",
            "source_commits": hooks_commits,
            "add_only": True,
        },
        "engines": [
            {"name": "E-ENUM", "path": "harness/src/props", "kind_free_text": "bounded exhaustive enumeration of inputs/configurations through the real API against a reference model",
             "serves_properties": [p for p in ALL if p in CHECKS and "E-ENUM" in CHECKS[p][1]]},
            {"name": "E-HIST", "path": "harness/src/engine/hist.rs", "kind_free_text": "explicit-state BFS (stateright) over a reference model with per-transition conformance replay on the real implementation",
             "serves_properties": [p for p in ALL if p in CHECKS and "E-HIST" in CHECKS[p][1]]},
            {"name": "E-SCHED", "path": "harness/src/engine/sched.rs", "kind_free_text": "controlled scheduler: preemption-bounded stateless DFS over real threads at shim lock/ArcSwap points",
             "serves_properties": [p for p in ALL if p in CHECKS and "E-SCHED" in CHECKS[p][1]]},
            {"name": "E-FAULT", "path": "harness/src/engine/fsfault.rs", "kind_free_text": "libc interposition: every mutating file-system call is a crash point and a fault-injection point",
             "serves_properties": [p for p in ALL if p in CHECKS and "E-FAULT" in CHECKS[p][1]]},
            {"name": "E-PROC", "path": "harness/src/engine/proc.rs", "kind_free_text": "complete child-process matrix for process-global state (log facade, env, TZ, tty)",
             "serves_properties": [p for p in ALL if p in CHECKS and "E-PROC" in CHECKS[p][1]]},
        ],
        "checks": checks,
        "not_applicable": [{"property_id": p, "reason": PENDING_REASON} for p in ALL if p not in CHECKS],
        "notes": "All checks: ./run.sh <ID> quick|thorough|replay <file>. Exit 0 held / only known findings (known_findings.txt), 1 VIOLATION, 2 machinery failure. See DESIGN.md.",
    }
    m["engines"] = [e for e in m["engines"] if e["serves_properties"]]
    path = os.path.join(HERE, "MANIFEST.json")
    json.dump(m, open(path, "w"), indent=1)
    open(path, "a").write("\n")
    try:
        import jsonschema
        jsonschema.validate(m, json.load(open("/root/.vp/MANIFEST.schema.json")))
        es = json.load(open("/root/.vp/EVIDENCE.schema.json"))
        for f in sorted(glob.glob(os.path.join(HERE, "evidence", "*.json"))):
            jsonschema.validate(json.load(open(f)), es)
        print("MANIFEST.json valid; %d checks; evidence files valid" % len(checks))
    except ImportError:
        print("jsonschema not importable with this python; written without validation")

main()
