#!/usr/bin/env python3
"""Prints the markdown table 'which check catches which seeded change' from /verif/seeded/*/{meta,detect}.json."""
import json, glob, os, re
rows = []
for d in sorted(glob.glob("/verif/seeded/*")):
    name = os.path.basename(d)
    meta = json.load(open(d + "/meta.json"))
    det = json.load(open(d + "/detect.json")) if os.path.exists(d + "/detect.json") else None
    what = meta.get("summary", "") or meta.get("change", "")
    if not what and os.path.exists(d + "/notes.md"):
        txt = open(d + "/notes.md").read()
        lines = [l.strip() for l in txt.splitlines() if l.strip() and not l.startswith("#")]
        what = lines[0][:140] if lines else ""
    if det:
        hits = ["%s %s: %s" % (r["check"], r["tier"], (r["signatures"].split() or ["-"])[0]) for r in det["runs"] if r["exit"] == 1]
        miss = [r["check"] for r in det["runs"] if r["exit"] == 0]
        res = "; ".join(hits) if hits else "NOT DETECTED"
        if miss and hits:
            res += " (not by %s)" % ",".join(miss)
    else:
        res = "not run"
    rows.append((name, meta["property"], what.replace("|", "/"), res.replace("|", "/")))
print("| seeded change | property | what it does | detected by (first signature) |")
print("|---|---|---|---|")
for r in rows:
    print("| %s | %s | %s | %s |" % r)
