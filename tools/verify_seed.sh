#!/bin/bash
# tools/verify_seed.sh <dir with patch.diff + demo_test.rs|demo.rs>
# Confirms in a scratch worktree (outside /repo and /verif) that the change applies to /repo's HEAD, builds,
# leaves the repository's own suite as it was (55 pass, only expand_env_vars_tests fails) and that the
# demonstration fails with the change and passes without it.  Writes <dir>/verify.json.
set -u
D="$(cd "$1" && pwd)"
WT=${WT:-/tmp/vseed-wt}
HEAD=$(git -C /repo rev-parse HEAD)
if [ ! -d "$WT" ]; then git -C /repo worktree add -q --detach "$WT" "$HEAD" || exit 2; fi
cd "$WT" || exit 2
git checkout -q --detach "$HEAD" && git checkout -q -- . && git clean -fdq tests examples src
export CARGO_NET_OFFLINE=true
res() { echo "$1"; }
applies=false; suite_ok=false; demo_fails_with=false; demo_passes_without=false; suite_summary=""
if git apply --check "$D/patch.diff" 2>/dev/null; then applies=true; fi
if $applies; then
  git apply "$D/patch.diff"
  out=$(cargo nextest run --workspace --no-fail-fast --offline 2>&1)
  suite_summary=$(echo "$out" | grep -E "Summary" | tail -1 | sed 's/^ *//')
  fails=$(echo "$out" | grep -E "^\s+FAIL " | awk '{print $NF}' | sort -u | tr '\n' ' ')
  if echo "$suite_summary" | grep -q "55 passed, 1 failed" && [ "$(echo $fails)" = "expand_env_vars_tests" -o "$(echo $fails)" = "append::test::expand_env_vars_tests" ]; then suite_ok=true; fi
  if [ -f "$D/demo_test.rs" ]; then cp "$D/demo_test.rs" tests/demo_test.rs; DEMO="cargo test --offline ${DEMO_FEATURES:-} --test demo_test"; else cp "$D/demo.rs" examples/vdemo.rs; DEMO="cargo run --offline --example vdemo"; fi
  if ! $DEMO >$WT.demo-with.log 2>&1; then
     # a compile error is not a failing demonstration
     if ! grep -q "could not compile" $WT.demo-with.log; then demo_fails_with=true; fi
  fi
  git apply -R "$D/patch.diff"
  if $DEMO >$WT.demo-without.log 2>&1; then demo_passes_without=true; fi
fi
git checkout -q -- . ; git clean -fdq tests examples src
cat > "$D/verify.json" <<JSON
{"repo_head": "$HEAD", "applies": $applies, "suite_ok": $suite_ok, "suite_summary": "$suite_summary", "suite_failures": "$(echo ${fails:-})", "demo_fails_with_change": $demo_fails_with, "demo_passes_without_change": $demo_passes_without}
JSON
cat "$D/verify.json"
