#!/bin/bash
# tools/try_seed.sh <patch.diff> <ID> [tier]   apply a seeded change to /repo, run the check, undo it
set -u
PATCH="$1"; ID="$2"; TIER="${3:-quick}"
cd /repo || exit 2
if ! git diff --quiet; then echo "/repo has uncommitted changes" >&2; exit 2; fi
git apply "$PATCH" || { echo "patch does not apply" >&2; exit 2; }
cd /verif
VERIF_DIR=/verif ./run.sh "$ID" "$TIER" 2>&1 | cut -c1-500 | head -${LINES_MAX:-14}
rc=${PIPESTATUS[0]}
git -C /repo checkout -- .
git -C /repo status --short | grep -v '^??' 
# restore evidence of the unchanged tree later by re-running the check
echo "exit=$rc"
