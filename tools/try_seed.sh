#!/bin/bash
# tools/try_seed.sh <patch.diff> <ID> [tier]   apply a seeded change to /repo, run the check, undo it
set -u
PATCH="$1"; ID="$2"; TIER="${3:-quick}"
cd /repo || exit 2
if ! git diff --quiet; then echo "/repo has uncommitted changes" >&2; exit 2; fi
git apply "$PATCH" || { echo "patch does not apply" >&2; exit 2; }
cd /verif
OUT=$(mktemp /dev/shm/try-seed.XXXXXX)
VERIF_DIR=/verif ./run.sh "$ID" "$TIER" >"$OUT" 2>/dev/null
rc=$?
grep -v "^log4rs:" "$OUT" | cut -c1-500 | head -${LINES_MAX:-14}
rm -f "$OUT"
git -C /repo checkout -- .
git -C /repo status --short | grep -v '^??'
# the evidence file now describes the changed tree: re-run the check on the unchanged tree before committing evidence
echo "exit=$rc"
