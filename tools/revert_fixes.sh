#!/bin/bash
# for every fixed: entry, revert that fix commit in the scratch copy and run the quick check of its property
SCR=/tmp/seedrun
HEAD=$(git -C /repo rev-parse HEAD)
git -C $SCR/repo checkout -q --detach "$HEAD"; git -C $SCR/repo checkout -q -- .
rsync -a --delete --exclude target --exclude 'target-*' --exclude evidence --exclude replays --exclude seeded --exclude benign --exclude .git /verif/ $SCR/verif/
sed -i "s#path = \"/repo\"#path = \"$SCR/repo\"#" $SCR/verif/harness/Cargo.toml
grep "^fixed:" /verif/known_findings.txt | awk '{print $2, $3}' | sed 's/property=//' | while read id c; do
  git -C $SCR/repo checkout -q -- .
  git -C /repo diff $c $c^ > /tmp/rev-$c.patch
  if ! git -C $SCR/repo apply /tmp/rev-$c.patch 2>/dev/null; then
     if ! (cd $SCR/repo && patch -p1 --fuzz=3 -s --no-backup-if-mismatch < /tmp/rev-$c.patch >/dev/null 2>&1); then echo "$id $c revert-does-not-apply"; find $SCR/repo -name "*.rej" -delete; git -C $SCR/repo checkout -q -- .; continue; fi
  fi
  out=$(cd $SCR/verif && ./run.sh $id quick 2>&1); rc=$?
  sig=$(echo "$out" | grep -E "^  signature=" | sed 's/^  signature=//; s/ cases=.*//' | head -3 | tr '\n' ' ')
  echo "$id $c exit=$rc $sig $(echo "$out" | grep -E 'MACHINERY|^error' | head -1 | cut -c1-120)"
  git -C $SCR/repo checkout -q -- .
done
