#!/bin/bash
# tools/benign_run.sh <dir with patch.diff> …
# Applies each property-preserving change in the scratch copy (/tmp/seedrun) and runs the quick checks of every
# property whose mechanism lives in a touched file.  Every check must stay silent (exit 0).
set -u
SCR=${SCR:-/tmp/seedrun}
HEAD=$(git -C /repo rev-parse HEAD)
mkdir -p $SCR
if [ ! -d $SCR/repo ]; then git -C /repo worktree add -q --detach $SCR/repo "$HEAD" || exit 2; fi
git -C $SCR/repo checkout -q --detach "$HEAD"; git -C $SCR/repo checkout -q -- .
mkdir -p $SCR/verif
rsync -a --delete --exclude target --exclude 'target-*' --exclude evidence --exclude replays --exclude seeded --exclude .git /verif/ $SCR/verif/
sed -i "s#path = \"/repo\"#path = \"$SCR/repo\"#" $SCR/verif/harness/Cargo.toml
checks_for() { # patch file -> list of checks
  local ids=""
  local files; files=$(grep '^+++ b/' "$1" | sed 's#^+++ b/##')
  for f in $files; do
    case "$f" in
      src/lib.rs) ids="$ids C01 C02 C03 C13 C14 C15";;
      src/append/file.rs) ids="$ids C04 C14 C19";;
      src/append/rolling_file/mod.rs) ids="$ids C05 C06 C08 C14 C16 C17 C19";;
      src/append/rolling_file/policy/compound/roll/*) ids="$ids C05 C07 C08 C14 C19";;
      src/append/rolling_file/policy/compound/trigger/time.rs) ids="$ids C05 C16 C20 C14";;
      src/append/rolling_file/policy/compound/trigger/size.rs) ids="$ids C05 C06 C20 C14";;
      src/append/rolling_file/policy/compound/trigger/onstartup.rs) ids="$ids C05 C17 C14";;
      src/append/rolling_file/policy/*) ids="$ids C05 C06 C08 C14 C17";;
      src/append/console.rs|src/encode/writer/*|src/priv_io.rs) ids="$ids C18 C14";;
      src/append/mod.rs) ids="$ids C19 C14 C04 C07";;
      src/encode/pattern/*) ids="$ids C09 C10 C11 C18 C14";;
      src/encode/json.rs) ids="$ids C12 C14";;
      src/encode/mod.rs) ids="$ids C09 C10 C12 C18 C14";;
      src/config/*) ids="$ids C02 C13 C14 C15 C20";;
      src/filter/*) ids="$ids C03 C14";;
      *) ids="$ids C01 C14";;
    esac
  done
  echo $ids | tr ' ' '\n' | sort -u | tr '\n' ' '
}
for d in "$@"; do
  name=$(echo "$d" | sed 's#.*/\(C[0-9]*\)/\(b[0-9]\)$#\1-\2#; s#.*/\(r[0-9]-C[0-9]*-b[0-9]\)$#\1#')
  git -C $SCR/repo checkout -q -- .
  if ! git -C $SCR/repo apply "$d/patch.diff" 2>/dev/null; then echo "$name: patch does not apply"; continue; fi
  ids=$(checks_for "$d/patch.diff")
  if [ -n "${ONLY:-}" ]; then # restrict to the listed checks
    keep=""; for c in $ids; do case " $ONLY " in *" $c "*) keep="$keep $c";; esac; done; ids="$keep"
  fi
  res=""
  for cid in $ids; do
    out=$(cd $SCR/verif && ./run.sh $cid quick 2>&1); rc=$?
    sigs=$(echo "$out" | grep -E "^  signature=" | sed 's/^  signature=//; s/ cases=.*//' | head -3 | tr '\n' ' ')
    if [ $rc -ne 0 ]; then echo "$name [$cid] exit=$rc $sigs $(echo "$out" | grep -E 'MACHINERY|^error' | head -2 | cut -c1-200)"; fi
    res="$res $cid:$rc"
  done
  echo "$name checks:$res"
  if [ -z "${ONLY:-}" ]; then echo "{\"checks\": \"$res\"}" > "$d/benign_result.json"; else echo "{\"checks\": \"$res\", \"repo_head\": \"$HEAD\"}" > "$d/recheck.json"; fi
  git -C $SCR/repo checkout -q -- .
done
