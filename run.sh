#!/bin/bash
# ./run.sh <ID> quick|thorough          run the check of one property against /repo's working tree
# ./run.sh <ID> replay <file>           re-execute a recorded violation without any explorer
# exit 0 = held (or only known findings), 1 = VIOLATION, 2 = machinery failure (never a verdict)
set -u
VERIF_DIR="$(cd "$(dirname "$0")" && pwd)"
export VERIF_DIR
export CARGO_NET_OFFLINE=true GOPROXY=off PIP_NO_INDEX=1
export RUSTFLAGS="--cfg log4rs_verif"
export CARGO_TARGET_DIR="$VERIF_DIR/target"
export RUST_BACKTRACE=0
ID="${1:?property id}"
MODE="${2:?quick|thorough|replay}"

build() { # profile, extra cargo args…
    local profile="$1"; shift
    local log; log="$(mktemp "${TMPDIR:-/dev/shm}/verif-build.XXXXXX")"
    if ! (cd "$VERIF_DIR/harness" && cargo build --offline --profile "$profile" "$@" >"$log" 2>&1); then
        echo "MACHINERY FAILURE: build of the harness against /repo failed (not a verdict)" >&2
        grep -E "^(error|warning: unused)" -A12 "$log" | head -80 >&2
        rm -f "$log"
        exit 2
    fi
    rm -f "$log"
}

build verif
BIN="$CARGO_TARGET_DIR/verif/verif-harness"
case "$ID:$MODE" in
    C09:thorough|C10:thorough|C11:thorough)
        # second build with release semantics (no debug assertions, wrapping arithmetic)
        CARGO_TARGET_DIR="$VERIF_DIR/target-rel" build verifrel
        export VERIF_REL_BIN="$VERIF_DIR/target-rel/verifrel/verif-harness"
        ;;
    C05:quick|C05:thorough|C07:thorough)
        CARGO_TARGET_DIR="$VERIF_DIR/target-bg" build verif --features background_rotation
        export VERIF_BG_BIN="$VERIF_DIR/target-bg/verif/verif-harness"
        ;;
esac
shift 2
"$BIN" "$ID" "$MODE" "$@"
rc=$?
# scratch roots of harness processes that no longer exist (a run that was killed or aborted) are removed
for d in /dev/shm/verif-log4rs-* "${TMPDIR:-/tmp}"/verif-log4rs-*; do
    [ -d "$d" ] || continue
    pid="${d##*-}"
    case "$pid" in *[!0-9]*) continue;; esac
    [ -e "/proc/$pid" ] || rm -rf "$d"
done
exit $rc
