#!/bin/bash
# builds the harness offline from files on disk (MANIFEST.setup_cmd)
set -eu
cd "$(dirname "$0")"
export CARGO_NET_OFFLINE=true RUSTFLAGS="--cfg log4rs_verif" CARGO_TARGET_DIR="$PWD/target"
(cd harness && cargo build --offline --profile verif)
# the build with the library's `background_rotation` feature (used by C05 quick/thorough and C07 thorough)
(cd harness && CARGO_TARGET_DIR="$PWD/../target-bg" cargo build --offline --profile verif --features background_rotation)
echo "setup ok"
